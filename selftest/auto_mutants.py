#!/venv/bin/python
"""Systematic (AST operator) mutation sweep over eqsig - an unbiased complement to the hand-written mutants.

  selftest/auto_mutants.py list [--files a.py,b.py]                 count candidate mutants per file / operator
  selftest/auto_mutants.py run  [--files ...] [--max-per-line 2] [--jobs 5] [--procs 3] [--limit N] [--ids ...]
  selftest/auto_mutants.py report                                   survivors from selftest/auto_results.json

Every mutant is one AST edit (arithmetic / comparison / boolean operator swap, constant +-1 or x1.1, min<->max, sin<->cos,
abs removed, ...) on a line that at least one quick check executes (selftest/coverage_map.json).  For each mutant a scratch
copy of the package is written under /tmp, the pinned pytest suite is run on it (mutants the suite kills are recorded as
such and not pursued: they are not 'changes that pass the existing tests'), then the quick checks that execute the line are
run (VERIF_EQSIG_PATH, no corpus, fail-fast, no shrinking) until one reports a violation.  Survivors are listed for triage:
each is either an equivalent mutant (no observable change in the claimed domain) or a blind spot to close.
Nothing here is evidence; results go to selftest/auto_results.json (development record).
"""
import argparse
import ast
import copy
import hashlib
import json
import os
import shutil
import signal
import subprocess
import sys
import tempfile
import time
from concurrent.futures import ThreadPoolExecutor

HERE = os.path.dirname(os.path.abspath(__file__))
VERIF = os.path.dirname(HERE)
REPO = "/repo"
PY = "/venv/bin/python"
FILES = ["eqsig/sdof.py", "eqsig/single.py", "eqsig/im.py", "eqsig/multiple.py", "eqsig/surface.py", "eqsig/stockwell.py",
         "eqsig/loader.py", "eqsig/design_spectra.py", "eqsig/displacements.py", "eqsig/fns/average.py", "eqsig/fns/frequency.py",
         "eqsig/fns/generic.py", "eqsig/fns/peaks_and_crossings.py", "eqsig/fns/time_shift.py", "eqsig/fns/time_step.py"]
# checks that execute nearly every line but assert ownership / staleness rather than values go last
ORDER = ["C01", "C02", "C03", "C06", "C07", "C08", "C09", "C10", "C11", "C12", "C13", "C14", "C15", "C16", "C17", "C18", "C19",
         "C20", "C04", "C05"]

SWAP_BIN = {ast.Add: ast.Sub, ast.Sub: ast.Add, ast.Mult: ast.Div, ast.Div: ast.Mult, ast.Pow: ast.Mult, ast.FloorDiv: ast.Div,
            ast.Mod: ast.FloorDiv}
SWAP_CMP = {ast.Lt: ast.LtE, ast.LtE: ast.Lt, ast.Gt: ast.GtE, ast.GtE: ast.Gt, ast.Eq: ast.NotEq, ast.NotEq: ast.Eq,
            ast.Is: ast.IsNot, ast.IsNot: ast.Is}
SWAP_NAME = {"min": "max", "max": "min", "argmin": "argmax", "argmax": "argmin", "sin": "cos", "cos": "sin", "floor": "ceil",
             "ceil": "floor", "zeros": "ones", "ones": "zeros", "zeros_like": "ones_like", "ones_like": "zeros_like",
             "real": "imag", "imag": "real", "amin": "amax", "amax": "amin", "minimum": "maximum", "maximum": "minimum",
             "cumsum": "cumprod", "sum": "max", "mean": "median", "rfft": "fft", "irfft": "ifft", "log": "log10", "log10": "log",
             "exp": "exp2", "sqrt": "cbrt", "tril": "triu", "triu": "tril", "flipud": "fliplr", "arange": "ones"}
DROP_CALL = {"abs", "fabs", "conj", "conjugate", "copy", "deepcopy", "array", "asarray", "int", "float", "round", "sorted", "flipud"}
SKIP_FUNCS = {"deprecation", "print", "plot", "show", "ValueError", "KeyError", "TypeError", "SignalProcessingError",
              "SignalProcessingWarning", "warn", "format"}


# Triage of survivors (file, first line, last line, verdict, why).  Verdicts:
#   equivalent   - no observable change for any input in the claimed domain
#   allowed      - observable change, but the property's statement permits both behaviours (or the input is outside its quantifier)
#   not-claimed  - the code's behaviour is not stated by any of the 20 properties (it is only executed, e.g. as a mutator in C04/C05)
#   strengthened - a blind spot; the named check was strengthened and now catches it
# Line numbers refer to /repo at the commit given in selftest/auto_summary.json.
TRIAGE = [
    ("design_spectra", 20, 22, "equivalent", "flag only tested for truth; placeholder array fully overwritten"),
    ("design_spectra", 28, 74, "allowed", "segment boundaries where the spectrum is continuous (both formulas agree at the joint to rounding); "
                                           "'tt == 0' falls through to a branch with the same value; one-element result indexed [0] / [-1]; negative periods are outside T >= 0"),
    ("design_spectra", 100, 108, "allowed", "displacement exactly equal to the corner displacement (a one-ulp set: the harness cannot construct it "
                                             "without replicating the formula)"),
    ("design_spectra", 118, 160, "allowed", "as for c_h_factor: continuous joints, the T == 0 branch multiplies by T**2 = 0"),
    ("average", 51, 51, "equivalent", "np.array() of something every later numpy call converts anyway"),
    ("average", 63, 63, "equivalent", "placeholder array fully overwritten"),
    ("average", 68, 71, "allowed", "dir= penalty when both side means are equal: the statement does not mention dir"),
    ("average", 101, 102, "allowed", "array() / int() of arguments that are arrays / ints in the quantifier (window sizes 1..len are integers)"),
    ("frequency", 8, 14, "not-claimed", "get_sig_array_indexes_range: no property"),
    ("frequency", 228, 233, "equivalent", "axis=0 / -1 of a 1-D array"),
    ("generic", 38, 50, "equivalent", "index clipped to -1 only where its weight is exactly 0; ties x_ind == x give weight 0 / 1 on the same node; "
                                     "clip floor 1e-10 vs 1.1e-10 below every generated node spacing"),
    ("generic", 76, 83, "equivalent", "constant inside an assertion message; one-element result indexed [0] / [-1]"),
    ("generic", 88, 92, "equivalent", "affine re-parametrisation of the polyfit abscissa"),
    ("peaks_and_crossings", 20, 50, "equivalent", "np.where(...)[0] / [-1] of a 1-tuple; -s*p < 0 vs <= 0 differs only for p == 0 where both branches give 0"),
    ("peaks_and_crossings", 112, 126, "equivalent", "first peak value never equals the first value after cleaning"),
    ("peaks_and_crossings", 150, 180, "equivalent", "to_begin sentinel any value > 1; len > 1 vs > 0 (a single zero index is kept either way); "
                                                    "tol > -1 enters a loop whose condition max|x| < 0 is never true; where()[0] / [-1]"),
    ("peaks_and_crossings", 262, 292, "allowed", "rebasing to the last instead of the first value negates the whole delta series; the statement "
                                                 "fixes magnitudes only (sum |d| = TV, |sum d| = |x[-1]-x[0]|)"),
    ("time_step", 30, 50, "equivalent", "factor == 1 handled identically by the next branch; int(ceil(x)) vs ceil(x) feed np.arange / int()"),
    ("time_step", 96, 120, "strengthened", "int(round(x)) -> int(x) only differs when fl(1/k)*npts falls below a whole number (k = 49, 98, ...): "
                                           "C14 fourier-rule got the inexact-reciprocal family, which found genuine defect C14-F2 on the pinned tree"),
    ("im", 40, 60, "equivalent", "ind2[0][0] / ind2[-1][0] of a 1-tuple"),
    ("im", 170, 222, "allowed", "calc_cav_dp: unused pga_max; round() already returns int; redundant abs; second branch of an exhaustive if / elif; "
                                "mask upper limit that every element satisfies; the time alignment of the interpolated series is not fixed by the "
                                "statement (length, monotonicity, range and final value are, and are checked)"),
    ("im", 290, 350, "equivalent", "bandwidth: '>' vs '>=' at exact equality with max/ratio (measure zero); 1-tuple indexing"),
    ("im", 462, 534, "equivalent", "abs() applied twice"),
    ("im", 555, 580, "equivalent", "abs() of pseudo spectra, which are >= 0"),
    ("multiple", 28, 60, "not-claimed", "Cluster constructor defaults (freq_range, response_times, names, Signal vs AccSignal class): C18 states "
                                        "alignment and rotation only; master_index -1 is outside 'master_index in range'"),
    ("multiple", 84, 101, "not-claimed", "unused 'base' argument; verbose printing"),
    ("multiple", 125, 180, "allowed", "time_match: verbose / unused trim; residual norm (sum vs max) and tie rule (< vs <=) pick the same lag "
                                      "whenever a lag with zero residual exists, which is what the statement covers; i + 0 / i - 0; the value used to "
                                      "pad outside the overlap is not fixed by the statement"),
    ("multiple", 255, 270, "allowed", "list instead of ndarray returned by compute_rotated: the statement fixes the values"),
    ("sdof", 85, 110, "equivalent", "np.array([[..]]) of blocks that are only indexed [i][j]"),
    ("sdof", 128, 135, "equivalent", "float() of floats"),
    ("sdof", 145, 162, "equivalent", "placeholder fully overwritten; tie -amin == amax gives the same absolute value"),
    ("sdof", 174, 186, "equivalent", "unused variable s; w[0] multiplies S_d[0] = 0"),
    ("sdof", 187, 187, "strengthened", "'<=' for '<' at a period of exactly six steps: first triaged as allowed, but 'below 6 time steps' does fix "
                                       "it; C03 now decides the rule in exact rational arithmetic (ambiguity only within 8 eps) and generates exact-six cases"),
    ("sdof", 250, 262, "not-claimed", "calc_resp_uke_spectrum: no property"),
    ("single", 45, 55, "equivalent", "placeholder overwritten before it can be read"),
    ("single", 130, 162, "not-claimed", "default smoothing frequency range / count of the object (C07 quantifies over target-frequency sets that are given)"),
    ("single", 250, 282, "allowed", "Gibbs padding layout (pad length, side, fill value): the statement fixes the response away from the ends and the "
                                    "length, which are checked for all four remove_gibbs modes"),
    ("single", 296, 316, "equivalent", "verbose printing; affine re-parametrisation of the polyfit abscissa"),
    ("single", 396, 412, "equivalent", "running_average edge branch: both branches slice the same clipped window"),
    ("single", 440, 448, "equivalent", "placeholders overwritten before they can be read"),
    ("single", 485, 500, "allowed", "a finer integration step than max(T/20, dt/ratio) is allowed ('no coarser than'); equal steps; dropping one "
                                    "interpolated tail sample stays inside the [no tail, held tail] sandwich"),
    ("single", 536, 552, "not-claimed", "correct_me: no property"),
    ("single", 553, 592, "not-claimed", "remove_rolling_average: the amount it removes is not stated by any property (C04 / C05 / C09 use it as a mutator)"),
    ("single", 593, 672, "not-claimed", "baseline corrections (zero residual velocity / displacement, rebasing): the correction applied is not stated "
                                        "by any property; C04, C08 and C09 assert that every derived quantity is consistent afterwards"),
    ("single", 738, 812, "not-claimed", "deprecated duration statistics and their placeholder values"),
    ("single", 815, 822, "equivalent", "verbose printing"),
    ("stockwell", 118, 150, "equivalent", "sign of a frequency that is only squared; overwrite_x on a temporary; slice end beyond the array"),
    ("average", 103, 111, "equivalent", "multiplying / dividing by an array of ones"),
    ("frequency", 200, 210, "equivalent", "axis=0 / -1 of a 1-D array"),
    ("im", 84, 90, "equivalent", "ind2[0][..] / ind2[-1][..] of a 1-tuple"),
    ("im", 446, 458, "equivalent", "placeholder 1e-14 vs 1.1e-14 far below rounding of the sum; a duplicated first / last node of a "
                                   "'previous'-kind interp1d (which sorts its nodes) carries the same value either way"),
    ("loader", 20, 24, "equivalent", "usecols=0 / -1 of a one-column file"),
    ("peaks_and_crossings", 80, 88, "equivalent", "np.where(...)[0] / [-1] of a 1-tuple"),
    ("sdof", 215, 222, "strengthened", "as sdof:187 (true_response_spectra)"),
    ("sdof", 262, 266, "equivalent", "mass = 1"),
    ("stockwell", 165, 175, "equivalent", "one extra Toeplitz row that the next slice drops; slice end beyond the array"),
    ("stockwell", 212, 224, "equivalent", "axis of a 1-D flip; a truncation length that only grows beyond the array length"),
    ("stockwell", 226, 244, "allowed", "frequency axis entry of the first-harmonic row only: the statement covers sinusoids from the second harmonic up"),
    ("time_shift", 96, 104, "not-claimed", "the end=-1 sentinel of get_section_average (same_start passes explicit section windows)"),
    ("surface", 25, 45, "equivalent", "min(max(2 s), 0) = min(min(2 s), 0) = 0 for non-negative shifts; shift exactly 0 takes either branch identically"),
    ("surface", 95, 105, "equivalent", "one-row result indexed [0] / [-1]"),
    ("surface", 205, 212, "equivalent", "one-row result indexed [0] / [-1]"),
]


def triage(r):
    base = os.path.basename(r["file"]).replace(".py", "")
    for b, lo, hi, verdict, why in TRIAGE:
        if b == base and lo <= r["line"] <= hi:
            return verdict, why
    return None, None


def _is_doc(node, parent):
    return isinstance(parent, ast.Expr)


class Finder(ast.NodeVisitor):
    """Enumerate (node_id, operator) candidates in a deterministic pre-order walk."""

    def __init__(self):
        self.cands = []   # (idx, lineno, op, detail)
        self.idx = 0
        self.stack = []

    def generic_visit(self, node):
        idx = self.idx
        self.idx += 1
        node._mid = idx
        parent = self.stack[-1] if self.stack else None
        ln = getattr(node, "lineno", None)
        if isinstance(node, ast.Call):
            fname = node.func.attr if isinstance(node.func, ast.Attribute) else getattr(node.func, "id", None)
            if fname in SKIP_FUNCS:
                return   # messages, warnings, plotting: not mutated (ids stay deterministic: the walk is the same every time)
            if fname in SWAP_NAME:
                self.cands.append((idx, ln, "call-swap", "%s->%s" % (fname, SWAP_NAME[fname])))
            if fname in DROP_CALL and len(node.args) >= 1:
                self.cands.append((idx, ln, "call-drop", "%s(x)->x" % fname))
        elif isinstance(node, ast.BinOp) and type(node.op) in SWAP_BIN:
            self.cands.append((idx, ln, "binop", "%s->%s" % (type(node.op).__name__, SWAP_BIN[type(node.op)].__name__)))
        elif isinstance(node, ast.AugAssign) and type(node.op) in SWAP_BIN:
            self.cands.append((idx, ln, "augop", "%s->%s" % (type(node.op).__name__, SWAP_BIN[type(node.op)].__name__)))
        elif isinstance(node, ast.Compare) and len(node.ops) == 1 and type(node.ops[0]) in SWAP_CMP:
            self.cands.append((idx, ln, "cmp", "%s->%s" % (type(node.ops[0]).__name__, SWAP_CMP[type(node.ops[0])].__name__)))
        elif isinstance(node, ast.BoolOp):
            self.cands.append((idx, ln, "boolop", "%s swapped" % type(node.op).__name__))
        elif isinstance(node, ast.UnaryOp) and isinstance(node.op, (ast.Not, ast.USub)):
            self.cands.append((idx, ln, "unary-drop", type(node.op).__name__))
        elif isinstance(node, ast.If):
            self.cands.append((idx, ln, "if-negate", ""))
        elif isinstance(node, ast.Constant) and not _is_doc(node, parent):
            v = node.value
            if isinstance(v, bool):
                self.cands.append((idx, ln, "const-bool", "%r->%r" % (v, not v)))
            elif isinstance(v, int):
                self.cands.append((idx, ln, "const-int+1", "%r->%r" % (v, v + 1)))
                self.cands.append((idx, ln, "const-int-1", "%r->%r" % (v, v - 1)))
            elif isinstance(v, float):
                self.cands.append((idx, ln, "const-float", "%r->%r" % (v, v * 1.1 if v else 1.0)))
        self.stack.append(node)
        super().generic_visit(node)
        self.stack.pop()


class Applier(ast.NodeTransformer):
    def __init__(self, target, op):
        self.target = target
        self.op = op
        self.done = False

    def visit(self, node):
        if getattr(node, "_mid", None) == self.target and not self.done:
            self.done = True
            return self.mutate(node)
        return super().generic_visit(node)

    def mutate(self, node):
        op = self.op
        if op == "call-swap":
            if isinstance(node.func, ast.Attribute):
                node.func.attr = SWAP_NAME[node.func.attr]
            else:
                node.func.id = SWAP_NAME[node.func.id]
            return node
        if op == "call-drop":
            return node.args[0]
        if op in ("binop", "augop"):
            node.op = SWAP_BIN[type(node.op)]()
            return node
        if op == "cmp":
            node.ops = [SWAP_CMP[type(node.ops[0])]()]
            return node
        if op == "boolop":
            node.op = ast.Or() if isinstance(node.op, ast.And) else ast.And()
            return node
        if op == "unary-drop":
            return node.operand
        if op == "if-negate":
            node.test = ast.UnaryOp(op=ast.Not(), operand=node.test)
            return node
        if op == "const-bool":
            return ast.copy_location(ast.Constant(value=not node.value), node)
        if op == "const-int+1":
            return ast.copy_location(ast.Constant(value=node.value + 1), node)
        if op == "const-int-1":
            return ast.copy_location(ast.Constant(value=node.value - 1), node)
        if op == "const-float":
            return ast.copy_location(ast.Constant(value=node.value * 1.1 if node.value else 1.0), node)
        raise ValueError(op)


def candidates(relfile, covmap):
    src = open(os.path.join(REPO, relfile)).read()
    tree = ast.parse(src)
    f = Finder()
    f.visit(tree)
    lines = covmap["lines"].get(relfile, {})
    srclines = src.splitlines()
    out = []
    # function spans, to skip module-level / def lines (executed at import by every check)
    in_func = set()
    for node in ast.walk(tree):
        if isinstance(node, (ast.FunctionDef, ast.AsyncFunctionDef)):
            body_start = node.body[0].lineno
            for ln in range(body_start, node.end_lineno + 1):
                in_func.add(ln)
    for idx, ln, op, detail in f.cands:
        if ln is None or ln not in in_func or str(ln) not in lines:
            continue
        props = [p for p in ORDER if p in lines[str(ln)]]
        if not props:
            continue
        mid = "%s:%d:%s:%d" % (os.path.basename(relfile).replace(".py", ""), ln, op, idx)
        out.append({"id": mid, "file": relfile, "line": ln, "op": op, "detail": detail, "node": idx, "props": props,
                    "src": srclines[ln - 1].strip()[:140]})
    return out, tree


def mutated_source(relfile, node_idx, op):
    src = open(os.path.join(REPO, relfile)).read()
    tree = ast.parse(src)
    Finder().visit(tree)
    ap = Applier(node_idx, op)
    new = ap.visit(tree)
    if not ap.done:
        raise RuntimeError("mutation target not found")
    ast.fix_missing_locations(new)
    return ast.unparse(new)


def _run(cmd, cwd, env, timeout):
    p = subprocess.Popen(cmd, cwd=cwd, env=env, stdout=subprocess.PIPE, stderr=subprocess.STDOUT, text=True, start_new_session=True)
    try:
        out, _ = p.communicate(timeout=timeout)
        return p.returncode, out
    except subprocess.TimeoutExpired:
        try:
            os.killpg(p.pid, signal.SIGKILL)
        except Exception:  # noqa
            pass
        p.wait()
        return -9, "TIMEOUT"


def run_one(m, args):
    t0 = time.time()
    scratch = tempfile.mkdtemp(prefix="eqsig_am_", dir="/tmp")
    try:
        shutil.copytree(os.path.join(REPO, "eqsig"), os.path.join(scratch, "eqsig"), ignore=shutil.ignore_patterns("__pycache__"))
        try:
            new_src = mutated_source(m["file"], m["node"], m["op"])
        except Exception as e:  # noqa
            return dict(m, result="GEN-ERROR", detail2=repr(e), wall=0)
        open(os.path.join(scratch, m["file"]), "w").write(new_src)
        shutil.copytree(os.path.join(REPO, "tests"), os.path.join(scratch, "tests"), ignore=shutil.ignore_patterns("__pycache__"))
        env = dict(os.environ, PYTHONPATH=scratch, PYTHONDONTWRITEBYTECODE="1", PYTHONHASHSEED="0", OMP_NUM_THREADS="1")
        rc, out = _run([PY, "-m", "pytest", "-q", "-x", "-p", "no:cacheprovider", "tests"], scratch, env, 300)
        if rc != 0:
            return dict(m, result="killed-by-tests", wall=round(time.time() - t0, 1))
        if args.tests_only:
            return dict(m, result="passes-tests", wall=round(time.time() - t0, 1))
        env = dict(os.environ, VERIF_EQSIG_PATH=scratch, VERIF_SEED=str(args.seed), VERIF_PROCS=str(args.procs), VERIF_NO_CORPUS="1",
                   VERIF_FAIL_FAST="1", VERIF_NO_SHRINK="1", VERIF_EVIDENCE_DIR=os.path.join(scratch, "evidence"),
                   VERIF_REPLAY_DIR=os.path.join(scratch, "replays"))
        tried = {}
        for prop in m["props"]:
            rc, out = _run([os.path.join(VERIF, "vcheck"), prop, "--tier", "quick"], VERIF, env, 900)
            first = [l for l in out.splitlines() if l.startswith(("clause ", "HARNESS-ERROR", "INCONCLUSIVE"))][:1]
            tried[prop] = {"rc": rc, "first": (first[0][:200] if first else "")}
            if rc == 1:
                return dict(m, result="caught", by=prop, tried=tried, wall=round(time.time() - t0, 1))
        res = "SURVIVED"
        if any(t["rc"] == 2 for t in tried.values()):
            res = "HARNESS"   # a check exited 2 (crash of the harness / starved generator) and none reported a violation
        if any(t["rc"] == -9 for t in tried.values()):
            res = "TIMEOUT"
        return dict(m, result=res, tried=tried, wall=round(time.time() - t0, 1))
    finally:
        shutil.rmtree(scratch, ignore_errors=True)


def select(args):
    covmap = json.load(open(os.path.join(HERE, "coverage_map.json")))
    files = FILES if not args.files else [f if f.startswith("eqsig/") else "eqsig/" + f for f in args.files.split(",")]
    ms = []
    for rel in files:
        c, _ = candidates(rel, covmap)
        ms.extend(c)
    if args.max_per_line:
        # deterministic thinning: at most k mutants per (file, line), chosen by hash so that operators are mixed
        by_line = {}
        for m in ms:
            by_line.setdefault((m["file"], m["line"]), []).append(m)
        ms = []
        for key in sorted(by_line):
            group = sorted(by_line[key], key=lambda m: hashlib.md5(m["id"].encode()).hexdigest())
            seen_ops = set()
            picked = []
            for m in group:       # prefer distinct operator kinds on a line
                if m["op"] not in seen_ops:
                    picked.append(m)
                    seen_ops.add(m["op"])
            for m in group:
                if m not in picked:
                    picked.append(m)
            ms.extend(picked[:args.max_per_line])
    if args.ids:
        want = set(args.ids.split(","))
        ms = [m for m in ms if m["id"] in want]
    if args.limit:
        ms = ms[:args.limit]
    return ms


def main():
    ap = argparse.ArgumentParser()
    ap.add_argument("cmd", choices=["list", "run", "report"])
    ap.add_argument("--files", default=None)
    ap.add_argument("--max-per-line", type=int, default=0)
    ap.add_argument("--jobs", type=int, default=5)
    ap.add_argument("--procs", type=int, default=3)
    ap.add_argument("--seed", type=int, default=1)
    ap.add_argument("--limit", type=int, default=0)
    ap.add_argument("--ids", default=None)
    ap.add_argument("--tests-only", action="store_true")
    ap.add_argument("--redo", action="store_true", help="re-run mutants that already have a result")
    ap.add_argument("--all", action="store_true", help="report: also list triaged survivors")
    ap.add_argument("--only-result", default=None, help="re-run only mutants whose stored result is one of these (comma separated)")
    args = ap.parse_args()
    out_path = os.path.join(HERE, "auto_results.json")
    prev = {}
    if os.path.exists(out_path):
        prev = {r["id"]: r for r in json.load(open(out_path))}
    if args.cmd == "report":
        rs = list(prev.values())
        tally = {}
        for r in rs:
            tally[r["result"]] = tally.get(r["result"], 0) + 1
        print(tally)
        verdicts = {}
        open_items = []
        for r in sorted(rs, key=lambda r: r["id"]):
            if r["result"] in ("caught", "killed-by-tests"):
                continue
            if r["result"] in ("HARNESS", "TIMEOUT"):
                verdicts[r["result"].lower()] = verdicts.get(r["result"].lower(), 0) + 1
                continue
            v, why = triage(r)
            if v is None:
                open_items.append(r)
            else:
                verdicts[v] = verdicts.get(v, 0) + 1
        print("survivors by verdict:", verdicts, "untriaged:", len(open_items))
        for r in open_items:
            print("%-9s %-44s %-22s | %s" % (r["result"], r["id"], r["detail"], r["src"]))
        if "--all" in sys.argv:
            for r in sorted(rs, key=lambda r: r["id"]):
                if r["result"] not in ("caught", "killed-by-tests"):
                    print("%-9s %-44s %-22s | %s" % (r["result"], r["id"], r["detail"], r["src"]))
        summary = {"repo_commit": subprocess.run(["git", "-C", REPO, "rev-parse", "--short", "HEAD"], capture_output=True, text=True).stdout.strip(),
                   "mutants": len(rs), "by_result": tally, "survivors_by_verdict": verdicts, "untriaged": [r["id"] for r in open_items]}
        json.dump(summary, open(os.path.join(HERE, "auto_summary.json"), "w"), indent=1)
        return 0
    ms = select(args)
    if args.cmd == "list":
        tally = {}
        for m in ms:
            tally[(m["file"], m["op"])] = tally.get((m["file"], m["op"]), 0) + 1
        per_file = {}
        for (f, op), n in sorted(tally.items()):
            per_file[f] = per_file.get(f, 0) + n
        for f, n in per_file.items():
            print("%-36s %d" % (f, n))
        print("total", len(ms))
        return 0
    if args.only_result:
        want = set(args.only_result.split(","))
        ms = [m for m in ms if prev.get(m["id"], {}).get("result") in want]
    elif not args.redo:
        ms = [m for m in ms if m["id"] not in prev]
    print("running %d mutants" % len(ms))
    sys.stdout.flush()
    done = 0
    with ThreadPoolExecutor(args.jobs) as ex:
        for r in ex.map(lambda m: run_one(m, args), ms):
            done += 1
            prev[r["id"]] = {k: r.get(k) for k in ("id", "file", "line", "op", "detail", "src", "props", "result", "by", "tried", "wall")}
            print("%4d/%d %-9s %-44s %-20s %5.0fs %s" % (done, len(ms), r["result"], r["id"], r["detail"], r.get("wall", 0), r.get("by") or ""))
            sys.stdout.flush()
            if done % 20 == 0:
                json.dump(sorted(prev.values(), key=lambda r: r["id"]), open(out_path, "w"), indent=0)
    json.dump(sorted(prev.values(), key=lambda r: r["id"]), open(out_path, "w"), indent=0)
    return 0


if __name__ == "__main__":
    sys.exit(main())
