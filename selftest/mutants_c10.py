MUTANTS = [
    # ---- C10
    dict(id="c10-sigdur-start-nonstrict", prop="C10", file="eqsig/im.py",
         old="ind2 = np.where((im_vals > start * im_vals[-1]) & (im_vals < end * im_vals[-1]))",
         new="ind2 = np.where((im_vals >= start * im_vals[-1]) & (im_vals < end * im_vals[-1]))",
         why="why_tests_cant: strict lower inequality made non-strict (calc_sig_dur)"),
    dict(id="c10-sigdur-end-nonstrict", prop="C10", file="eqsig/im.py",
         old="ind2 = np.where((im_vals > start * im_vals[-1]) & (im_vals < end * im_vals[-1]))",
         new="ind2 = np.where((im_vals > start * im_vals[-1]) & (im_vals <= end * im_vals[-1]))",
         why="why_tests_cant: strict upper inequality made non-strict (calc_sig_dur)"),
    dict(id="c10-vals-start-nonstrict", prop="C10", file="eqsig/im.py",
         old="ind2 = np.where((cum_acc2 > start * cum_acc2[-1]) & (cum_acc2 < end * cum_acc2[-1]))",
         new="ind2 = np.where((cum_acc2 >= start * cum_acc2[-1]) & (cum_acc2 < end * cum_acc2[-1]))",
         why="strict lower inequality made non-strict (calc_sig_dur_vals)"),
    dict(id="c10-vals-end-nonstrict", prop="C10", file="eqsig/im.py",
         old="ind2 = np.where((cum_acc2 > start * cum_acc2[-1]) & (cum_acc2 < end * cum_acc2[-1]))",
         new="ind2 = np.where((cum_acc2 > start * cum_acc2[-1]) & (cum_acc2 <= end * cum_acc2[-1]))",
         why="strict upper inequality made non-strict (calc_sig_dur_vals)"),
    dict(id="c10-sigdur-ignores-im", prop="C10", file="eqsig/im.py",
         old="        im_vals = im(asig)\n",
         new="        im_vals = calc_arias_intensity(asig)\n",
         why="why_tests_cant: im argument mishandled (user measure silently replaced by Arias)"),
    dict(id="c10-sigdur-se-inverted", prop="C10", file="eqsig/im.py",
         old="    end_time = ind2[0][-1] * asig.dt\n    if se:",
         new="    end_time = ind2[0][-1] * asig.dt\n    if not se:",
         why="why_tests_cant: se argument mishandled (calc_sig_dur)"),
    dict(id="c10-sigdur-end-plus-one", prop="C10", file="eqsig/im.py",
         old="    end_time = ind2[0][-1] * asig.dt\n",
         new="    end_time = (ind2[0][-1] + 1) * asig.dt\n",
         why="off-by-one: end reported at the first sample past the interval"),
    dict(id="c10-sigdur-final-value", prop="C10", file="eqsig/im.py",
         old="ind2 = np.where((im_vals > start * im_vals[-1]) & (im_vals < end * im_vals[-1]))",
         new="ind2 = np.where((im_vals > start * im_vals[-1]) & (im_vals < end * im_vals[-2]))",
         why="wrong endpoint: upper fraction taken of the last-but-one value instead of the final value"),
    dict(id="c10-vals-se-swapped", prop="C10", file="eqsig/im.py",
         old="    if se:\n        return start_time, end_time\n    return end_time - start_time\n\n\ndef calc_sig_dur(",
         new="    if se:\n        return end_time, start_time\n    return end_time - start_time\n\n\ndef calc_sig_dur(",
         why="swapped return values of se=True (calc_sig_dur_vals)"),
    dict(id="c10-vals-abs-not-square", prop="C10", file="eqsig/im.py",
         old="    cum_acc2 = np.cumsum(motion ** 2)",
         new="    cum_acc2 = np.cumsum(np.abs(motion))",
         why="array variant accumulates |a| instead of a^2"),
    dict(id="c10-vals-absolute-threshold", prop="C10", file="eqsig/im.py",
         old="ind2 = np.where((cum_acc2 > start * cum_acc2[-1]) & (cum_acc2 < end * cum_acc2[-1]))",
         new="ind2 = np.where((cum_acc2 > start * min(cum_acc2[-1], 1e6)) & (cum_acc2 < end * cum_acc2[-1]))",
         why="lower threshold stops being a fraction of the total for strong records (breaks amplitude invariance)"),
    dict(id="c10-deprecated-drops-fractions", prop="C10", file="eqsig/im.py",
         old="    return calc_sig_dur_vals(motion, dt, start=start, end=end)",
         new="    return calc_sig_dur_vals(motion, dt)",
         why="start/end arguments mishandled by the deprecated alias"),
    dict(id="c10-brac-nonstrict", prop="C10", file="eqsig/im.py",
         old="    ind01 = np.where(abs_motion > threshold)\n    time2 = time[ind01]",
         new="    ind01 = np.where(abs_motion >= threshold)\n    time2 = time[ind01]",
         why="why_tests_cant: strict exceedance made non-strict (calc_brac_dur)"),
    dict(id="c10-brac-dropped-abs", prop="C10", file="eqsig/im.py",
         old="    abs_motion = abs(asig.values)\n\n    time = np.arange(asig.npts) * asig.dt",
         new="    abs_motion = asig.values\n\n    time = np.arange(asig.npts) * asig.dt",
         why="dropped abs: negative exceedances ignored"),
    dict(id="c10-brac-none-value", prop="C10", file="eqsig/im.py",
         old="        if se:\n            return None, None\n        return 0\n",
         new="        if se:\n            return 0, 0\n        return 0\n",
         why="boundary case: no exceedance must give (None, None)"),
    dict(id="c10-brac-time-origin", prop="C10", file="eqsig/im.py",
         old="    time = np.arange(asig.npts) * asig.dt\n    # Bracketed duration\n    ind01 = np.where(abs_motion > threshold)\n    time2 = time[ind01]\n    try:\n        if se:",
         new="    time = np.arange(1, asig.npts + 1) * asig.dt\n    # Bracketed duration\n    ind01 = np.where(abs_motion > threshold)\n    time2 = time[ind01]\n    try:\n        if se:",
         why="wrong endpoint: sample times start at dt instead of 0 (only se=True is affected)"),
    dict(id="c10-brac-last-is-peak", prop="C10", file="eqsig/im.py",
         old="        if se:\n            return time2[0], time2[-1]\n        return time2[-1] - time2[0]",
         new="        if se:\n            return time2[0], time2[-1]\n        return time2[-1 if len(time2) < 40 else -2] - time2[0]",
         why="last exceedance dropped when many samples exceed (se=False only)"),
    dict(id="c10-stats-se-order", prop="C10", file="eqsig/single.py",
         old="        self.t_595 = self.sd_end - self.sd_start",
         new="        self.t_595 = self.sd_start - self.sd_end",
         why="deprecated generate_duration_stats: duration sign reversed"),
]

# ---- wave 2: refreshed / audit survivors / size-window mutants (arbitrary thresholds; DESIGN 8.5) ----------------------------
_VALS_CUM = "    cum_acc2 = np.cumsum(np.asarray(motion, dtype=float) ** 2)\n"
_SIG_MASK = "    ind2 = np.where((im_vals > start * im_vals[-1]) & (im_vals < end * im_vals[-1]))\n"
_SIG_BODY = (_SIG_MASK + "    start_time = ind2[0][0] * asig.dt\n    end_time = ind2[0][-1] * asig.dt\n")
_BRAC_WHERE = "    ind01 = np.where(abs_motion > threshold)\n    time2 = time[ind01]\n    try:\n        if se:\n            return time2[0], time2[-1]"
_BRAC_TIME = "    time = np.arange(asig.npts) * asig.dt\n    # Bracketed duration\n    ind01 = np.where(abs_motion > threshold)\n    time2 = time[ind01]\n    try:\n        if se:"

MUTANTS = [m for m in MUTANTS if m["id"] != "c10-vals-abs-not-square"]   # its `old` text predates repo commit b611071: refreshed below
MUTANTS += [
    dict(id="c10-vals-abs-not-square", prop="C10", file="eqsig/im.py", old=_VALS_CUM,
         new="    cum_acc2 = np.cumsum(np.abs(np.asarray(motion, dtype=float)))\n",
         why="array variant accumulates |a| instead of a^2 [refreshed]"),
    # -- audit C10 section 5 (confirmed survivors of the previous module)
    dict(id="c10-a1-arias-path-nonstrict", prop="C10", file="eqsig/im.py",
         old="    if im is None:\n        im_vals = calc_arias_intensity(asig)\n    else:\n        im_vals = im(asig)\n" + _SIG_MASK,
         new="    if im is None:\n        im_vals = calc_arias_intensity(asig)\n"
             "        ind2 = np.where((im_vals >= start * im_vals[-1]) & (im_vals <= end * im_vals[-1]))\n"
             "    else:\n        im_vals = im(asig)\n"
             "        ind2 = np.where((im_vals > start * im_vals[-1]) & (im_vals < end * im_vals[-1]))\n",
         why="audit 5.1: non-strict comparisons on the default (Arias) path only"),
    dict(id="c10-a2-vals-no-asarray", prop="C10", file="eqsig/im.py", old=_VALS_CUM,
         new="    cum_acc2 = np.cumsum(motion ** 2)\n",
         why="audit 5.2: reverting repo fix b611071 (a list argument raises TypeError; narrow integers wrap - not in this module's scope)"),
    dict(id="c10-a3-sigdur-coarse-8192", prop="C10", file="eqsig/im.py", old=_SIG_MASK,
         new="    if len(im_vals) > 8192:\n"
             "        ind2 = (np.where((im_vals[::4] > start * im_vals[-1]) & (im_vals[::4] < end * im_vals[-1]))[0] * 4,)\n"
             "    else:\n    " + _SIG_MASK,
         why="audit 5.3: coarse search (every 4th sample) on records longer than 8192 samples"),
    dict(id="c10-a4-brac-float32-6000", prop="C10", file="eqsig/im.py",
         old="    ind01 = np.where(abs_motion > threshold)\n    time2 = time[ind01]\n",
         new="    if asig.npts > 6000:\n        ind01 = np.where(abs_motion.astype(np.float32) > np.float32(threshold))\n"
             "    else:\n        ind01 = np.where(abs_motion > threshold)\n    time2 = time[ind01]\n",
         why="audit 5.4: single-precision comparison in calc_brac_dur for n > 6000"),
    # -- window mutants
    dict(id="c10-w-vals-carry-5000", prop="C10", file="eqsig/im.py", old=_VALS_CUM,
         new="    sq = np.asarray(motion, dtype=float) ** 2\n"
             "    if len(sq) <= 5000:\n"
             "        cum_acc2 = np.cumsum(sq)\n"
             "    else:\n"
             "        cum_acc2 = np.empty(len(sq))\n"
             "        carry = 0.0\n"
             "        prev_total = 0.0\n"
             "        for i0 in range(0, len(sq), 1024):\n"
             "            seg = np.cumsum(sq[i0:i0 + 1024])\n"
             "            cum_acc2[i0:i0 + 1024] = seg + carry\n"
             "            carry = prev_total + seg[-1]\n"
             "            prev_total = seg[-1]\n",
         why="window n > 5000: blocked running sum of squares (1024) whose carry forgets all but the last two blocks"),
    dict(id="c10-w-sigdur-f32-20000", prop="C10", file="eqsig/im.py", old=_SIG_MASK,
         new="    if len(im_vals) > int('20000'):\n"
             "        lo32, hi32 = np.float32(start * im_vals[-1]), np.float32(end * im_vals[-1])\n"
             "        iv32 = np.asarray(im_vals, dtype=np.float32)\n"
             "        ind2 = np.where((iv32 > lo32) & (iv32 < hi32))\n"
             "    else:\n    " + _SIG_MASK,
         why="window n > 20000: memory-saving single-precision mask in calc_sig_dur"),
    dict(id="c10-w-brac-droptail-70000", prop="C10", file="eqsig/im.py",
         old="    ind01 = np.where(abs_motion > threshold)\n    time2 = time[ind01]\n",
         new="    if asig.npts > int('70000'):\n"
             "        blk = 16384\n"
             "        nb = asig.npts // blk\n"
             "        hits = (np.asarray(abs_motion)[:nb * blk] > threshold).reshape(nb, blk)\n"
             "        ind01 = (np.flatnonzero(hits.ravel()),)\n"
             "    else:\n"
             "        ind01 = np.where(abs_motion > threshold)\n    time2 = time[ind01]\n",
         why="window n > 70000: blocked exceedance search (16384) that never looks at the last partial block"),
    dict(id="c10-w-sigdur-arias-cache", prop="C10", file="eqsig/im.py",
         old="    if im is None:\n        im_vals = calc_arias_intensity(asig)\n    else:\n        im_vals = im(asig)\n",
         new="    if im is None:\n"
             "        if 3000 < asig.npts <= 150000:\n"
             "            im_vals = getattr(asig, '_arias_series', None)\n"
             "            if im_vals is None or len(im_vals) != asig.npts:\n"
             "                im_vals = calc_arias_intensity(asig)\n"
             "                asig._arias_series = im_vals\n"
             "        else:\n"
             "            im_vals = calc_arias_intensity(asig)\n"
             "    else:\n        im_vals = im(asig)\n",
         why="window 3000 < n <= 150000: Arias series cached on the signal object, stale after reset_values"),
    dict(id="c10-w-deprecated-defaults-700", prop="C10", file="eqsig/im.py",
         old="    return calc_sig_dur_vals(motion, dt, start=start, end=end)",
         new="    if len(motion) > 700:\n        return calc_sig_dur_vals(motion, dt)\n    return calc_sig_dur_vals(motion, dt, start=start, end=end)",
         why="window n > 700: the deprecated alias drops its start / end arguments"),
    dict(id="c10-w-stats-decimated-1500", prop="C10", file="eqsig/single.py",
         old="        self.sd_start, self.sd_end = im.calc_sig_dur_vals(self.values, self.dt, se=True)",
         new="        if self.npts > 1500:\n"
             "            self.sd_start, self.sd_end = im.calc_sig_dur_vals(self.values[::2], self.dt * 2, se=True)\n"
             "        else:\n"
             "            self.sd_start, self.sd_end = im.calc_sig_dur_vals(self.values, self.dt, se=True)",
         why="window n > 1500: generate_duration_stats works on every second sample"),
    dict(id="c10-w-brac-linspace-9000", prop="C10", file="eqsig/im.py",
         old="    time = np.arange(asig.npts) * asig.dt\n    # Bracketed duration\n",
         new="    if asig.npts > 9000:\n        time = np.linspace(0, asig.npts * asig.dt, asig.npts)\n"
             "    else:\n        time = np.arange(asig.npts) * asig.dt\n    # Bracketed duration\n",
         why="window n > 9000: time axis by linspace with the wrong end point (times stretched by n/(n-1))"),
    dict(id="c10-w-vals-f32-200000", prop="C10", file="eqsig/im.py", old=_VALS_CUM,
         new="    if len(motion) > 200000:\n"
             "        cum_acc2 = np.cumsum(np.asarray(motion, dtype=float) ** 2, dtype=np.float32).astype(float)\n"
             "    else:\n    " + _VALS_CUM,
         why="window n > 200000: running sum of squares accumulated in float32"),
    # -- behaviour-preserving refactorings: the check must stay quiet
    dict(id="c10-ok-sigdur-bisect", prop="C10", file="eqsig/im.py", old=_SIG_BODY, expect="survive",
         new="    i_start = np.searchsorted(im_vals, start * im_vals[-1], side='right')\n"
             "    i_end = np.searchsorted(im_vals, end * im_vals[-1], side='left') - 1\n"
             "    start_time = i_start * asig.dt\n    end_time = i_end * asig.dt\n",
         why="CORRECT for every cumulative (non-decreasing) measure: bisecting for the two crossings (the seeded change "
             "c10-sig-dur-bisect-nonmonotone): must not be reported"),
    dict(id="c10-ok-sigdur-two-searches", prop="C10", file="eqsig/im.py", old=_SIG_BODY, expect="survive",
         new="    above = im_vals > start * im_vals[-1]\n    below = im_vals < end * im_vals[-1]\n"
             "    if not np.any(above & below):\n        raise IndexError('no sample between the fractions')\n"
             "    start_time = np.argmax(above) * asig.dt\n    end_time = (len(below) - 1 - np.argmax(below[::-1])) * asig.dt\n",
         why="CORRECT for every cumulative (non-decreasing) measure: first-above-lo and last-below-hi searched separately (the "
             "seeded change r3-c10-two-separate-searches): must not be reported"),
    dict(id="c10-ok-vals-blocked", prop="C10", file="eqsig/im.py", old=_VALS_CUM, expect="survive",
         new="    sq = np.asarray(motion, dtype=float) ** 2\n"
             "    cum_acc2 = np.empty(len(sq))\n"
             "    carry = 0.0\n"
             "    for i0 in range(0, len(sq), 4096):\n"
             "        cum_acc2[i0:i0 + 4096] = np.cumsum(sq[i0:i0 + 4096]) + carry\n"
             "        carry = cum_acc2[min(i0 + 4096, len(sq)) - 1]\n",
         why="CORRECT blocked running sum of squares: must not be reported"),
]

# ---- narrow integer records (raw digitiser counts): reverts of the repository repair 2c04324 (b611071: c10-a2-vals-no-asarray above)
MUTANTS += [
    dict(id="c10-revert-2c04324-init", prop="C10", file="eqsig/single.py",
         old="        self._values = _float_array(values)\n", new="        self._values = np.array(values)\n",
         why="reverts repo fix 2c04324 in Signal.__init__: an int16 / int32 / int8 record is kept in its dtype (abs of the most negative "
             "sample wraps around: calc_brac_dur misses it; squares wrap: Arias levels wrong)"),
    dict(id="c10-revert-2c04324-reset", prop="C10", file="eqsig/single.py",
         old="        self._values = _float_array(new_values)\n", new="        self._values = np.array(new_values)\n",
         why="reverts repo fix 2c04324 in Signal.reset_values: replacing the values by an int16 record keeps the dtype"),
]
