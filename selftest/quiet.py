#!/venv/bin/python
"""Quietness sweep: run every claimed check at several VERIF_SEED values in fresh processes on the unmodified tree and
report exit codes (must all be 0).  usage: selftest/quiet.py [--seeds 1,2,3,4,5] [--tier quick] [--only C01,C02] [--jobs 2]
Evidence/replay output goes to a scratch directory so the committed evidence is not disturbed."""
import argparse
import json
import os
import subprocess
import sys
import tempfile
import time
from concurrent.futures import ThreadPoolExecutor

VERIF = os.path.dirname(os.path.dirname(os.path.abspath(__file__)))


def main():
    ap = argparse.ArgumentParser()
    ap.add_argument("--seeds", default="1,2,3,4,5")
    ap.add_argument("--tier", default="quick")
    ap.add_argument("--only", default=None)
    ap.add_argument("--jobs", type=int, default=2)
    ap.add_argument("--procs", type=int, default=8)
    a = ap.parse_args()
    man = json.load(open(os.path.join(VERIF, "MANIFEST.json")))
    props = [c["property_id"] for c in man["checks"]]
    if a.only:
        props = [p for p in props if p in a.only.upper().split(",")]
    seeds = [int(s) for s in a.seeds.split(",")]
    scratch = tempfile.mkdtemp(prefix="verif_quiet_")
    tasks = [(p, s) for p in props for s in seeds]

    def run(t):
        p, s = t
        env = dict(os.environ, VERIF_SEED=str(s), VERIF_EVIDENCE_DIR=os.path.join(scratch, "ev%d" % s),
                   VERIF_REPLAY_DIR=os.path.join(scratch, "rp%d" % s), VERIF_PROCS=str(a.procs))
        t0 = time.time()
        r = subprocess.run([os.path.join(VERIF, "vcheck"), p, "--tier", a.tier], cwd=VERIF, env=env, capture_output=True, text=True)
        bad = [l for l in r.stdout.splitlines() if l.startswith(("VIOLATION", "HARNESS", "clause ", "INCONCLUSIVE"))]
        return p, s, r.returncode, round(time.time() - t0, 1), bad[:3]
    with ThreadPoolExecutor(a.jobs) as ex:
        res = list(ex.map(run, tasks))
    worst = 0
    for p in props:
        row = [r for r in res if r[0] == p]
        print("%s  %s" % (p, "  ".join("seed%d:rc=%d(%.0fs)" % (r[1], r[2], r[3]) for r in row)))
        for r in row:
            if r[2] != 0:
                worst = 1
                for l in r[4]:
                    print("      seed %d: %s" % (r[1], l[:200]))
    print("ALL QUIET" if not worst else "NOT QUIET")
    print("scratch output in", scratch)
    return worst


if __name__ == "__main__":
    sys.exit(main())
