MUTANTS = [
    dict(id="c04-acc-clear-smooth", prop="C04", file="eqsig/single.py",
         old="    def clear_cache(self):\n        self._cached_smooth_fa = False\n        self._cached_fa = False\n        self._cached_response_spectra = False",
         new="    def clear_cache(self):\n        self._cached_fa = False\n        self._cached_response_spectra = False",
         why="AccSignal.clear_cache keeps the smoothed spectrum"),
    dict(id="c04-acc-clear-fa", prop="C04", file="eqsig/single.py",
         old="        self._cached_smooth_fa = False\n        self._cached_fa = False\n        self._cached_response_spectra = False",
         new="        self._cached_smooth_fa = False\n        self._cached_response_spectra = False",
         why="AccSignal.clear_cache keeps the Fourier spectrum"),
    dict(id="c04-acc-clear-rs", prop="C04", file="eqsig/single.py",
         old="        self._cached_fa = False\n        self._cached_response_spectra = False\n        self._cached_disp_and_velo = False\n",
         new="        self._cached_fa = False\n        self._cached_disp_and_velo = False\n",
         why="clear_cache keeps response spectra"),
    dict(id="c04-acc-clear-vd", prop="C04", file="eqsig/single.py",
         old="        self._cached_response_spectra = False\n        self._cached_disp_and_velo = False\n        self.__dict__.pop(",
         new="        self._cached_response_spectra = False\n        self.__dict__.pop(",
         why="clear_cache keeps velocity/displacement"),
    dict(id="c04-acc-clear-stats", prop="C04", file="eqsig/single.py",
         old="  # Stockwell transform cached on the object by eqsig.stockwell\n        self.reset_all_motion_stats()",
         new="  # Stockwell transform cached on the object by eqsig.stockwell",
         why="clear_cache keeps pga/pgv/pgd"),
    dict(id="c04-sig-clear-fa", prop="C04", file="eqsig/single.py",
         old='        """Resets the dynamically calculated properties."""\n        self._cached_smooth_fa = False\n        self._cached_fa = False',
         new='        """Resets the dynamically calculated properties."""\n        self._cached_smooth_fa = False',
         why="Signal.clear_cache keeps the Fourier spectrum"),
    dict(id="c04-freq-setter", prop="C04", file="eqsig/single.py",
         old="    def smooth_fa_freqs(self, freqs):\n        self._smooth_fa_freqs = np.array(freqs, dtype=float)\n        self._cached_smooth_fa = False",
         new="    def smooth_fa_freqs(self, freqs):\n        self._smooth_fa_freqs = np.array(freqs, dtype=float)",
         why="smooth_fa_freqs setter does not invalidate"),
    dict(id="c04-by-range", prop="C04", file="eqsig/single.py",
         old="        self._smooth_freq_range = np.array(limits)\n        self._cached_smooth_fa = False",
         new="        self._smooth_freq_range = np.array(limits)",
         why="set_smooth_fa_frequecies_by_range does not invalidate"),
    dict(id="c04-running-average", prop="C04", file="eqsig/single.py",
         old="                self._values[i] = np.mean(mot[cc1:cc2])\n\n        self.clear_cache()",
         new="                self._values[i] = np.mean(mot[cc1:cc2])\n",
         why="running_average forgets clear_cache"),
    dict(id="c04-rebase", prop="C04", file="eqsig/single.py",
         old="        self._values -= acceleration_correction\n        self.clear_cache()",
         new="        self._values -= acceleration_correction\n        self._cached_disp_and_velo = False",
         why="rebase_displacement only invalidates velocity/displacement"),
    dict(id="c04-pgv-cache-key", prop="C04", file="eqsig/single.py",
         old='            pgv = im.calc_peak(self.velocity)\n            self._cached_params["pgv"] = pgv',
         new='            pgv = im.calc_peak(self.velocity)\n            self._cached_params["pgd"] = pgv',
         why="reading pgv poisons the pgd cache entry"),
    dict(id="c04-revert-fix", prop="C04", file="eqsig/single.py",
         old="        self._response_times = values\n        self._cached_response_spectra = False",
         new="        self._response_times = values",
         why="reverts fix: response_times setter does not invalidate"),
    dict(id="c04-reset-npts", prop="C04", file="eqsig/single.py",
         old="        self._values = _float_array(new_values)\n        self._npts = len(new_values)\n        self.clear_cache()",
         new="        self._values = _float_array(new_values)\n        self.clear_cache()",
         why="reset_values keeps the old npts"),
    dict(id="c04-gen-smooth-flag", prop="C04", file="eqsig/single.py",
         old="        if smooth_fa_freqs is not None:\n            self._smooth_fa_freqs = np.array(smooth_fa_freqs, dtype=float)\n        self._smooth_fa_spectrum",
         new="        if smooth_fa_freqs is not None:\n            self._smooth_fa_freqs = np.array(smooth_fa_freqs, dtype=float)\n        if self._cached_smooth_fa and smooth_fa_freqs is not None and len(smooth_fa_freqs) == len(self._smooth_fa_spectrum):\n            return\n        self._smooth_fa_spectrum",
         why="gen_smooth_fa_spectrum(new freqs) skipped when a same-length spectrum is cached"),
    # ---- window mutants (mid-range clauses): the old code below an arbitrary size, a subtly wrong variant above it ----------
    dict(id="c04-mid-smooth-weights-ends-key", prop="C04", file="eqsig/single.py",
         old="        self._smooth_fa_spectrum = calc_smooth_fa_spectrum(self.fa_freqs,\n"
             "                                                               self.fa_spectrum, self.smooth_fa_freqs, band=band)\n"
             "        self._cached_smooth_fa = True",
         new="        nf, nt = len(self.fa_freqs) - 1, len(self.smooth_fa_freqs)\n"
             "        if nf * nt >= 300000:  # weights are the bulk of the work: keep them while the axes are the same\n"
             "            from eqsig.fns.frequency import calc_smoothing_matrix_konno_1998\n"
             "            key = (nf, nt, float(self.smooth_fa_freqs[0]), float(self.smooth_fa_freqs[-1]), band)\n"
             "            if getattr(self, '_ko_key', None) != key:\n"
             "                self._ko_w = calc_smoothing_matrix_konno_1998(self.fa_freqs, np.asarray(self.smooth_fa_freqs, dtype=float), band=band)\n"
             "                self._ko_key = key\n"
             "            self._smooth_fa_spectrum = np.sum(abs(self.fa_spectrum[1:])[:, np.newaxis] * self._ko_w, axis=0)\n"
             "        else:\n"
             "            self._smooth_fa_spectrum = calc_smooth_fa_spectrum(self.fa_freqs,\n"
             "                                                               self.fa_spectrum, self.smooth_fa_freqs, band=band)\n"
             "        self._cached_smooth_fa = True",
         why="window: Fourier frequencies x targets >= 3e5: smoothing weights kept, keyed by shape, end points and band (stale when inner targets move)"),
    dict(id="c04-mid-fa-kept-same-length", prop="C04", file="eqsig/single.py",
         old="        self._values = _float_array(new_values)\n        self._npts = len(new_values)\n        self.clear_cache()",
         new="        same = self._npts == len(new_values) and self._npts > 70000\n"
             "        fa_state = (self._fa_freqs, self._cached_fa)\n"
             "        self._values = _float_array(new_values)\n        self._npts = len(new_values)\n        self.clear_cache()\n"
             "        if same:  # long record of unchanged length: the frequency axis is still valid\n"
             "            self._fa_freqs, self._cached_fa = fa_state",
         why="window: records > 70 000 samples: reset_values with the same length restores the 'Fourier spectrum valid' flag with the frequency axis"),
    dict(id="c04-mid-rebase-keeps-displacement", prop="C04", file="eqsig/single.py",
         old="        self._values -= acceleration_correction\n        self.clear_cache()",
         new="        self._values -= acceleration_correction\n"
             "        keep = self.npts > 20000\n"
             "        if keep:  # long record: a constant offset changes the velocity by a ramp, no need to integrate again\n"
             "            self._velocity = self._velocity - acceleration_correction * self.time\n"
             "        self.clear_cache()\n"
             "        if keep:\n"
             "            self._cached_disp_and_velo = True",
         why="window: records > 20 000 samples: rebase_displacement updates the velocity analytically and forgets the displacement"),
    dict(id="c04-mid-periods-setter-prefix", prop="C04", file="eqsig/single.py",
         old="        self._response_times = values\n        self._cached_response_spectra = False",
         new="        old = getattr(self, '_response_times', None)\n"
             "        self._response_times = values\n"
             "        if old is not None and len(values) > 100 and len(old) == len(values) and \\\n"
             "                np.array_equal(np.asarray(old, dtype=float)[:64], np.asarray(values, dtype=float)[:64]):\n"
             "            return  # long list, same periods\n"
             "        self._cached_response_spectra = False",
         why="window: > 100 periods: the setter compares only the first 64 periods before it invalidates the spectra"),
    dict(id="c04-mid-pga-kept-long", prop="C04", file="eqsig/single.py",
         old="        self.arias_intensity = 0.0\n        self._cached_params = {}",
         new="        self.arias_intensity = 0.0\n"
             "        if self._npts is not None and self._npts > 150000 and 'pga' in getattr(self, '_cached_params', {}):\n"
             "            self._cached_params = {'pga': self._cached_params['pga']}  # scanning a long record is slow\n"
             "        else:\n"
             "            self._cached_params = {}",
         why="window: records > 150 000 samples: reset_all_motion_stats keeps the cached pga"),
    dict(id="c04-mid-interp-record-kept", prop="C04", file="eqsig/single.py",
         old="            values_interp, dt_interp = interp_array_to_approx_dt(self.values, self.dt, target_dt, even=False)\n",
         new="            kept = getattr(self, '_interp_kept', None)\n"
             "            if kept is not None and kept[0] == (self.npts, target_dt) and self.npts * self.dt / target_dt > 10000:\n"
             "                values_interp, dt_interp = kept[1], kept[2]  # the finer record of the last request\n"
             "            else:\n"
             "                values_interp, dt_interp = interp_array_to_approx_dt(self.values, self.dt, target_dt, even=False)\n"
             "                self._interp_kept = ((self.npts, target_dt), values_interp, dt_interp)\n",
         why="window: interpolated record > 10 000 samples: kept between requests, keyed by length and step only (stale after the values change)"),
    dict(id="c04-mid-butter-inplace-long", prop="C04", file="eqsig/single.py",
         old="        mote = mote[s_len:f_len]  # TODO: don't use -1\n\n        self.reset_values(mote)",
         new="        mote = mote[s_len:f_len]  # TODO: don't use -1\n\n"
             "        if org_len > 40000:  # long record: write into the existing buffer instead of allocating a new one\n"
             "            self._values[:] = mote\n"
             "            self._cached_fa = False\n"
             "            self._cached_smooth_fa = False\n"
             "            return\n"
             "        self.reset_values(mote)",
         why="window: records > 40 000 samples: butter_pass writes in place and only invalidates the two spectra (AccSignal keeps velocity, peaks, response spectra)"),
    dict(id="c04-mid-spectra-kept-big", prop="C04", file="eqsig/single.py",
         old="        if xi == -1:\n            xi = self._cached_xi\n        try:\n",
         new="        if xi == -1:\n            xi = self._cached_xi\n"
             "        rs_key = (len(values_interp), len(periods), float(periods[0]), float(periods[-1]), xi)\n"
             "        if len(values_interp) * len(periods) > 2000000 and getattr(self, '_rs_key', None) == rs_key and self._s_a is not None:\n"
             "            self._cached_response_spectra = True  # same (expensive) request as the last one\n"
             "            return\n"
             "        self._rs_key = rs_key\n"
             "        try:\n",
         why="window: periods x samples > 2e6: spectra of the 'same request' kept, the request identified by sizes, end periods and damping only"),
    # ---- behaviour-preserving window refactorings: the new clauses must stay quiet -----------------------------------------
    dict(id="c04-mid-rebase-analytic-update-ok", prop="C04", file="eqsig/single.py", expect="survive",
         old="        self._values -= acceleration_correction\n        self.clear_cache()",
         new="        self._values -= acceleration_correction\n"
             "        keep = self.npts > 20000\n"
             "        if keep:  # a constant offset changes the velocity by a ramp and the displacement by a parabola (exact for the trapezium rule)\n"
             "            t = self.time\n"
             "            vel = self._velocity - acceleration_correction * t\n"
             "            disp = self._displacement - 0.5 * acceleration_correction * t ** 2\n"
             "        self.clear_cache()\n"
             "        if keep:\n"
             "            self._velocity, self._displacement, self._cached_disp_and_velo = vel, disp, True",
         why="survive: records > 20 000 samples: velocity AND displacement updated analytically (correct to rounding)"),
    dict(id="c04-mid-smooth-blocked-ok", prop="C04", file="eqsig/single.py", expect="survive",
         old="        self._smooth_fa_spectrum = calc_smooth_fa_spectrum(self.fa_freqs,\n"
             "                                                               self.fa_spectrum, self.smooth_fa_freqs, band=band)\n"
             "        self._cached_smooth_fa = True",
         new="        targets = np.asarray(self.smooth_fa_freqs, dtype=float)\n"
             "        if (len(self.fa_freqs) - 1) * len(targets) > 1000000:  # bound the temporaries: 64 targets at a time\n"
             "            self._smooth_fa_spectrum = np.concatenate([calc_smooth_fa_spectrum(self.fa_freqs, self.fa_spectrum, targets[i:i + 64], band=band)\n"
             "                                                       for i in range(0, len(targets), 64)])\n"
             "        else:\n"
             "            self._smooth_fa_spectrum = calc_smooth_fa_spectrum(self.fa_freqs,\n"
             "                                                               self.fa_spectrum, self.smooth_fa_freqs, band=band)\n"
             "        self._cached_smooth_fa = True",
         why="survive: Fourier frequencies x targets > 1e6: smoothing evaluated for 64 targets at a time (correct blocked implementation)"),
    dict(id="c04-revert-fix-gen-fa-keeps-smooth", prop="C04", file="eqsig/single.py",
         old="        self._cached_fa = True\n        self._cached_smooth_fa = False  # the smoothed spectrum is derived from the Fourier spectrum just replaced",
         new="        self._cached_fa = True",
         why="reverts fix da9cde1: gen_fa_spectrum(p2_plus=) / (n=) leaves a previously cached smoothed spectrum in place"),
]
