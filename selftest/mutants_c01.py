MUTANTS = [
    # ---- C01
    dict(id="c01-t0-sign", prop="C01", file="eqsig/sdof.py",
         old="        sdof_acc[0] = acc\n", new="        sdof_acc[0] = -acc\n", why="T=0 row sign flipped"),
    dict(id="c01-b12-1e5", prop="C01", file="eqsig/sdof.py",
         old="- one_ov_w2 + two_b_ov_w3\n", new="- one_ov_w2 + two_b_ov_w3 * (1 + 1e-5)\n", why="load coefficient off by 1e-5 relative"),
    dict(id="c01-twopi", prop="C01", file="eqsig/sdof.py",
         old="w = 6.2831853 / periods[s:]", new="w = 6.28318 / periods[s:]", why="2*pi truncated to 6 digits"),
    dict(id="c01-acc-damping", prop="C01", file="eqsig/sdof.py",
         old="        sdof_acc = -2 * xi * w[:, np.newaxis] * resp_v[s:] - w2[:, np.newaxis] * resp_u[s:]\n\n    return",
         new="        sdof_acc = -xi * w[:, np.newaxis] * resp_v[s:] - w2[:, np.newaxis] * resp_u[s:]\n\n    return",
         why="third series drops a factor 2 on the damping term (no leading zero branch)"),
    dict(id="c01-last-step", prop="C01", file="eqsig/sdof.py",
         old="    for i in range(len(acc) - 1):  # possibly speed up", new="    for i in range(len(acc) - 2 if len(acc) > 2500 else len(acc) - 1):  # possibly speed up",
         why="last sample never integrated for long records"),
    dict(id="c01-asig-xi", prop="C01", file="eqsig/single.py",
         old="        if xi == -1:\n            xi = self._cached_xi\n        resp_u, resp_v, resp_a = dh.response_series",
         new="        if xi == -1 or xi > 0.999:\n            xi = self._cached_xi\n        resp_u, resp_v, resp_a = dh.response_series",
         why="object entry point silently replaces near-critical damping"),
    dict(id="c01-a21-sign-highdamp", prop="C01", file="eqsig/sdof.py",
         old="    a_21 = -w / sqrt_b2 * exp_b * sin_wsqrt    # Eq 2.7d(3)", new="    a_21 = -w / sqrt_b2 * exp_b * sin_wsqrt * np.where(xi > 0.98, 1 - 1e-5, 1.0)    # Eq 2.7d(3)",
         why="state matrix off by 1e-5 only for xi > 0.98"),
    dict(id="c01-b21-short-period", prop="C01", file="eqsig/sdof.py",
         old="                    - (two_b_ov_w3 + one_ov_w2) * (wsqrtsin + xwcos)) + one_ov_w2 / dt", new="                    - (two_b_ov_w3 + one_ov_w2) * (wsqrtsin + xwcos)) + one_ov_w2 / dt * np.where(w * dt > 6, 1 + 1e-5, 1.0)",
         why="velocity load coefficient off by 1e-5 only for T < ~dt"),
    dict(id="c01-list-record-int", prop="C01", file="eqsig/sdof.py",
         old="    acc = -np.array(acc, dtype=float)", new="    acc = -np.array(acc, dtype=float if not isinstance(acc, list) else np.float32).astype(float)",
         why="list records silently rounded to single precision"),
    dict(id="c01-dt-float32", prop="C01", file="eqsig/sdof.py",
         old="    dt = float(dt)\n    xi = float(xi)", new="    dt = float(dt)\n    xi = float(np.float32(xi)) if xi > 0.99 else float(xi)",
         why="near-critical damping rounded to single precision"),
]

# ---- window mutants (mid-range enumerations): below the threshold the pinned code runs, above it a subtly wrong variant
_LOOP = "    for i in range(len(acc) - 1):  # possibly speed up using scipy.signal.lfilter\n"
_W = "    w = 6.2831853 / periods[s:]\n"
_AB = "    a, b = compute_a_and_b(xi, w, dt)\n"
_ALLOC = ("    resp_u = np.zeros([len(periods), len(acc)], dtype=float)\n"
          "    resp_v = np.zeros([len(periods), len(acc)], dtype=float)\n")
_BODY = ("        resp_u[s:, i + 1] = (a[0][0] * resp_u[s:, i] + a[0][1] * resp_v[s:, i] + b[0][0] * acc[i] + b[0][1] * acc[i + 1])\n"
         "        resp_v[s:, i + 1] = (a[1][0] * resp_u[s:, i] + a[1][1] * resp_v[s:, i] + b[1][0] * acc[i] + b[1][1] * acc[i + 1])\n")
MUTANTS += [
    dict(id="c01-w-timeblock-carry-20000", prop="C01", file="eqsig/sdof.py", old=_LOOP,
         new="    blk = 8192 if len(acc) > 20000 else len(acc) + 1\n" + _LOOP +
             "        if i >= 2 * blk and i % blk == 0:\n"
             "            resp_v[s:, i] = resp_v[s:, i - 1]  # seam of the blocked time loop: stale velocity carried over\n",
         why="window: records longer than 20 000 samples are integrated in blocks of 8192 samples; from the third block on the "
             "velocity carried across the seam is one step old"),
    dict(id="c01-w-many-periods-float32-700", prop="C01", file="eqsig/sdof.py", old=_AB,
         new=_AB + "    if len(w) > 700:\n        a = a.astype(np.float32).astype(float)  # 'the transition matrix is well conditioned'\n",
         why="window: with more than 700 periods the transition matrices are held in single precision"),
    dict(id="c01-w-product-dropped-tail-2e6", prop="C01", file="eqsig/sdof.py", old=_LOOP,
         new="    n_steps = len(acc) - 1\n    if len(periods) * len(acc) > 2000000:\n        n_steps = (n_steps // 256) * 256  # whole blocks only\n"
             "    for i in range(n_steps):  # possibly speed up using scipy.signal.lfilter\n",
         why="window: above 2e6 response values the time loop runs over whole blocks of 256 steps only; the last partial block stays zero"),
    dict(id="c01-w-accsignal-cache-5000", prop="C01", file="eqsig/single.py",
         old="        resp_u, resp_v, resp_a = dh.response_series(self.values, self.dt, self.response_times, xi)\n        return resp_u, resp_v, resp_a\n",
         new="        key = (self.npts, tuple(np.asarray(self.response_times, dtype=float).tolist()))\n"
             "        if 5000 <= self.npts <= 250000 and getattr(self, '_rs_cache', None) is not None and self._rs_cache[0] == key:\n"
             "            return self._rs_cache[1]\n"
             "        resp_u, resp_v, resp_a = dh.response_series(self.values, self.dt, self.response_times, xi)\n"
             "        self._rs_cache = (key, (resp_u, resp_v, resp_a))\n"
             "        return resp_u, resp_v, resp_a\n",
         why="window: for records of 5 000 - 250 000 samples AccSignal.response_series keeps the last result, keyed on record length and "
             "periods only - stale after the damping or the values change"),
    dict(id="c01-w-wrapper-halves-70000", prop="C01", file="eqsig/sdof.py",
         old="    return nigam_and_jennings_response(motion, dt, periods, xi)\n",
         new="    if len(motion) > 70000:  # two passes to limit the size of the temporaries\n"
             "        h = len(motion) // 2\n"
             "        r1 = nigam_and_jennings_response(motion[:h], dt, periods, xi)\n"
             "        r2 = nigam_and_jennings_response(motion[h:], dt, periods, xi)\n"
             "        return tuple(np.concatenate([x, y], axis=1) for x, y in zip(r1, r2))\n"
             "    return nigam_and_jennings_response(motion, dt, periods, xi)\n",
         why="window: response_series splits records longer than 70 000 samples in two halves and restarts the second from rest"),
    dict(id="c01-w-period-seam-100", prop="C01", file="eqsig/sdof.py", old=_W,
         new=_W + "    if len(w) > 100:\n        w[96::48] = w[95::48][:len(w[96::48])]  # first row of every block from the third on\n",
         why="window: with more than 100 periods, from the third block of 48 on the first oscillator of a block repeats the previous period"),
    dict(id="c01-w-t0-row-tail-250000", prop="C01", file="eqsig/sdof.py",
         old="        sdof_acc[0] = acc\n",
         new="        if len(acc) > 250000:\n            sdof_acc[0, :-1] = acc[:-1]\n        else:\n            sdof_acc[0] = acc\n",
         why="window: for records longer than 250 000 samples the T=0 row misses its last sample"),
    dict(id="c01-w-product-float32-state-1.5e7", prop="C01", file="eqsig/sdof.py", old=_ALLOC,
         new="    st = np.float32 if len(periods) * len(acc) > 15000000 else float\n"
             "    resp_u = np.zeros([len(periods), len(acc)], dtype=st)\n    resp_v = np.zeros([len(periods), len(acc)], dtype=st)\n",
         why="window: above 1.5e7 response values the state arrays are single precision (halves the memory)"),
    # behaviour-preserving window refactorings: the mid-range clauses must stay quiet
    dict(id="c01-s-period-blocked-correct", prop="C01", file="eqsig/sdof.py", expect="survive",
         old=_LOOP + "        # x_i+1 = A cross (u, v) + B cross (acc_i, acc_i+1)  # Eq 2.7a\n" + _BODY,
         new="    for j0 in range(s, len(periods), 128):  # oscillators advanced in blocks of 128\n"
             "        a, b = compute_a_and_b(xi, 6.2831853 / periods[j0:j0 + 128], dt)\n"
             "        u, v = resp_u[j0:j0 + 128], resp_v[j0:j0 + 128]\n"
             "        for i in range(len(acc) - 1):\n"
             "            u[:, i + 1] = (a[0][0] * u[:, i] + a[0][1] * v[:, i] + b[0][0] * acc[i] + b[0][1] * acc[i + 1])\n"
             "            v[:, i + 1] = (a[1][0] * u[:, i] + a[1][1] * v[:, i] + b[1][0] * acc[i] + b[1][1] * acc[i + 1])\n",
         why="correct period-blocked time loop (the seeded r5 change without its offset defect): must not raise an alarm"),
    dict(id="c01-s-time-blocked-correct", prop="C01", file="eqsig/sdof.py", expect="survive",
         old=_LOOP + "        # x_i+1 = A cross (u, v) + B cross (acc_i, acc_i+1)  # Eq 2.7a\n" + _BODY,
         new="    for i0 in range(0, len(acc) - 1, 4096):  # time loop in blocks of 4096 steps, state carried in the arrays\n"
             "      for i in range(i0, min(i0 + 4096, len(acc) - 1)):\n" + _BODY,
         why="correct time-blocked loop: must not raise an alarm"),
]

# ---- survivors reported by the audit of C01 (notes/audit/C01.md section 5)
MUTANTS += [
    dict(id="c01-a-s1-negate-in-record-dtype", prop="C01", file="eqsig/sdof.py",
         old="    acc = -np.array(acc, dtype=float)\n", new="    acc = np.negative(acc).astype(float)\n",
         why="audit S1: the sign flip happens in the record's dtype - unsigned and most-negative integer samples wrap around"),
    dict(id="c01-a-s2-zero-only-period-list", prop="C01", file="eqsig/sdof.py", old=_W,
         new=_W + "    if w.size == 0:  # no oscillators\n        z = np.zeros([len(periods), len(acc)])\n        return z, z.copy(), z.copy()\n",
         why="audit S2: the period list [0] alone returns a zero acceleration row instead of the sign-flipped record"),
    dict(id="c01-a-s3-tiny-period-rigid", prop="C01", file="eqsig/sdof.py",
         old="    if periods[0] == 0:\n        s = 1\n    else:\n        s = 0\n    w = 6.2831853 / periods[s:]\n",
         new="    if periods[0] <= 1e-5:\n        s = 1\n    else:\n        s = 0\n    w = 6.2831853 / periods[s:]\n",
         why="audit S3: a first period below 10 microseconds is treated as rigid (inside the quantifier for dt < 5e-5)"),
]
