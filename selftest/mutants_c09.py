MUTANTS = [
    # ---- C09 (none of these touches the two lines of calc_cav_dp that the proposed repair changes)
    dict(id="c09-arias-g", prop="C09", file="eqsig/im.py",
         old="    return np.pi / (2 * 9.81) * cumulative_trapezoid(acc ** 2, dx=dt, initial=0)",
         new="    return np.pi / (2 * 9.8) * cumulative_trapezoid(acc ** 2, dx=dt, initial=0)",
         why="Arias constant uses g = 9.8 (0.1 % off)"),
    dict(id="c09-cav-no-abs", prop="C09", file="eqsig/im.py",
         old="    abs_acc = np.abs(acc_sig.values)\n    return cumulative_trapezoid(abs_acc, dx=acc_sig.dt, initial=0)",
         new="    abs_acc = acc_sig.values\n    return cumulative_trapezoid(abs_acc, dx=acc_sig.dt, initial=0)",
         why="dropped abs in CAV"),
    dict(id="c09-cav-noise-floor", prop="C09", file="eqsig/im.py",
         old="    abs_acc = np.abs(acc_sig.values)\n    return cumulative_trapezoid(abs_acc, dx=acc_sig.dt, initial=0)",
         new="    abs_acc = np.abs(acc_sig.values)\n    abs_acc = np.where(abs_acc < 1e-7, 0, abs_acc)\n"
             "    return cumulative_trapezoid(abs_acc, dx=acc_sig.dt, initial=0)",
         why="hidden noise floor makes CAV non-homogeneous (|alpha| scaling broken for small records)"),
    dict(id="c09-isv-rect", prop="C09", file="eqsig/im.py",
         old="    return cumulative_trapezoid(acc_sig.velocity ** 2, dx=acc_sig.dt, initial=0)",
         new="    return np.cumsum(acc_sig.velocity ** 2) * acc_sig.dt",
         why="ISV by rectangle rule instead of trapezoid (differs by half the last term)"),
    dict(id="c09-absacc-trapz", prop="C09", file="eqsig/im.py",
         old="    acc_int = np.cumsum(abs_acc * asig.dt)",
         new="    acc_int = cumulative_trapezoid(abs_acc, dx=asig.dt, initial=0)",
         why="integral of |a| by trapezoid instead of the rectangle sum"),
    dict(id="c09-absvel-displacement", prop="C09", file="eqsig/im.py",
         old="    abs_vel = abs(asig.velocity)",
         new="    abs_vel = abs(asig.displacement)",
         why="swapped series: integral of |v| computed from the displacement"),
    dict(id="c09-uke-unsigned", prop="C09", file="eqsig/im.py",
         old="    kin_energy = 0.5 * acc_signal.velocity * np.abs(acc_signal.velocity)",
         new="    kin_energy = 0.5 * acc_signal.velocity ** 2",
         why="kinetic energy loses the sign of v: changes across a velocity reversal are under-counted"),
    dict(id="c09-uke-first", prop="C09", file="eqsig/im.py",
         old="    delta_energy = np.insert(delta_energy, 0, kin_energy[0])",
         new="    delta_energy = np.insert(delta_energy, 0, kin_energy[1])",
         why="wrong endpoint for the first change of kinetic energy"),
    dict(id="c09-cavdp-ungated", prop="C09", file="eqsig/im.py",
         old="        cav_dp = cav_dp + (h * int_acc)",
         new="        cav_dp = cav_dp + int_acc",
         why="0.025 g gate ignored"),
    dict(id="c09-cavdp-gate-runmax", prop="C09", file="eqsig/im.py",
         old="        if (pga - 0.025) < 0:\n            h = 0\n        elif (pga - 0.025) >= 0:",
         new="        if (pga_max - 0.025) < 0:\n            h = 0\n        elif (pga_max - 0.025) >= 0:",
         why="gate uses the running maximum: every window after the first qualifying one counts"),
    dict(id="c09-cavdp-gate-level", prop="C09", file="eqsig/im.py",
         old="        if (pga - 0.025) < 0:\n            h = 0\n        elif (pga - 0.025) >= 0:",
         new="        if (pga - 0.0250001) < 0:\n            h = 0\n        elif (pga - 0.0250001) >= 0:",
         why="gate level moved by 4e-6 relative (windows peaking just above 0.025 g are dropped)"),
    dict(id="c09-cavdp-gate-strict", prop="C09", file="eqsig/im.py",
         old="        pga = (max(abs_acc_interval))\n",
         new="        pga = (max(abs_acc_interval[:-1]))\n",
         why="gate ignores the closing sample of the one-second window"),
    dict(id="c09-cavdp-g", prop="C09", file="eqsig/im.py",
         old="    acc_in_g = asig.values / 9.81",
         new="    acc_in_g = asig.values / 9.8",
         why="g = 9.8 in standardised CAV (0.1 % off: windows peaking just below 0.025 g pass the gate)"),
    dict(id="c09-cavdp-skip-sample", prop="C09", file="eqsig/im.py",
         old="        start = end\n",
         new="        start = end + 1\n",
         why="off-by-one: windows no longer share their boundary sample and drift by one sample per second"),
    dict(id="c09-absacc-no-abs", prop="C09", file="eqsig/im.py",
         old="    abs_acc = abs(asig.values)\n    acc_int = np.cumsum(abs_acc * asig.dt)",
         new="    abs_acc = asig.values\n    acc_int = np.cumsum(abs_acc * asig.dt)",
         why="dropped abs in the integral of |a| (series no longer monotone)"),
    dict(id="c09-cad-swapped", prop="C09", file="eqsig/im.py",
         old="    return calc_integral_of_abs_velocity(asig)",
         new="    return calc_integral_of_abs_acceleration(asig)",
         why="cumulative absolute displacement delegates to the wrong integral"),
]
MUTANTS += [
    dict(id="c09-revert-round", prop="C09", file="eqsig/im.py",
         old="    points_per_sec = int(round(1 / asig.dt))", new="    points_per_sec = (int(1 / asig.dt))", why="reverts fix C09-F1"),
    dict(id="c09-revert-total-seconds", prop="C09", file="eqsig/im.py",
         old="    total_seconds = (asig.npts - 1) // points_per_sec", new="    total_seconds = int(asig.time[-1])", why="reverts fix C09-F2"),
]

# ---- wave 2: refreshed / audit survivors / size-window mutants (arbitrary thresholds; DESIGN 8.5) ----------------------------
_ARIAS_OLD = "    return np.pi / (2 * 9.81) * cumulative_trapezoid(np.asarray(acc, dtype=float) ** 2, dx=dt, initial=0)"
_CAV_OLD = "    abs_acc = np.abs(acc_sig.values)\n    return cumulative_trapezoid(abs_acc, dx=acc_sig.dt, initial=0)"
_ISV_OLD = "    return cumulative_trapezoid(acc_sig.velocity ** 2, dx=acc_sig.dt, initial=0)"
_ABSACC_OLD = "    acc_int = np.cumsum(abs_acc * asig.dt)\n"
_ABSVEL_OLD = "    vel_int = np.cumsum(abs_vel * asig.dt)\n"
_UKE_OLD = ("    kin_energy = 0.5 * acc_signal.velocity * np.abs(acc_signal.velocity)\n"
            "    delta_energy = np.diff(kin_energy)\n"
            "    delta_energy = np.insert(delta_energy, 0, kin_energy[0])\n"
            "    cum_delta_energy = np.cumsum(abs(delta_energy))\n"
            "    return cum_delta_energy\n")

MUTANTS = [m for m in MUTANTS if m["id"] != "c09-arias-g"]   # its `old` text predates repo commit b611071: refreshed below
MUTANTS += [
    dict(id="c09-arias-g", prop="C09", file="eqsig/im.py", old=_ARIAS_OLD,
         new=_ARIAS_OLD.replace("9.81", "9.8"),
         why="Arias constant uses g = 9.8 (0.1 % off) [refreshed]"),
    # -- audit C09 section 5 (confirmed survivors of the previous module)
    dict(id="c09-a1-arias-blocked-seam", prop="C09", file="eqsig/im.py", old=_ARIAS_OLD,
         new="    acc2 = np.asarray(acc, dtype=float) ** 2\n"
             "    if acc2.ndim == 1 and 8192 < len(acc2) <= 49152:\n"
             "        out = np.zeros(len(acc2))\n"
             "        base = 0.0\n"
             "        for i0 in range(0, len(acc2), 8192):\n"
             "            out[i0:i0 + 8192] = cumulative_trapezoid(acc2[i0:i0 + 8192], dx=dt, initial=0) + base\n"
             "            base = out[min(i0 + 8192, len(acc2)) - 1]\n"
             "        return np.pi / (2 * 9.81) * out\n"
             "    return np.pi / (2 * 9.81) * cumulative_trapezoid(acc2, dx=dt, initial=0)",
         why="audit 5.1: block-wise Arias for 8192 < n <= 49152 loses the panel across each block seam"),
    dict(id="c09-a4-cav-float32-window", prop="C09", file="eqsig/im.py", old=_CAV_OLD,
         new="    abs_acc = np.abs(acc_sig.values)\n"
             "    if 150000 < len(abs_acc) <= 2 ** 20:\n"
             "        abs_acc = abs_acc.astype(np.float32)\n"
             "    return cumulative_trapezoid(abs_acc, dx=acc_sig.dt, initial=0)",
         why="audit 5.4: CAV in single precision for 150000 < n <= 2^20 (relative error ~1e-6)"),
    dict(id="c09-a5-cavdp-rate-cap", prop="C09", file="eqsig/im.py",
         old="    points_per_sec = int(round(1 / asig.dt))\n",
         new="    points_per_sec = int(round(1 / asig.dt))\n    if points_per_sec > 1000:\n        points_per_sec = 1000\n",
         why="audit 5.5: sampling rates above 1 kHz treated as 1 kHz (windows too short, part of the record ignored)"),
    # -- window mutants
    dict(id="c09-w-isv-seam-5000", prop="C09", file="eqsig/im.py", old=_ISV_OLD,
         new="    v2 = acc_sig.velocity ** 2\n"
             "    if len(v2) <= 5000:\n"
             "        return cumulative_trapezoid(v2, dx=acc_sig.dt, initial=0)\n"
             "    out = np.zeros(len(v2))\n"
             "    blk = 1777\n"
             "    carry = 0.0\n"
             "    for b, i0 in enumerate(range(0, len(v2), blk)):\n"
             "        out[i0:i0 + blk] = cumulative_trapezoid(v2[i0:i0 + blk], dx=acc_sig.dt, initial=0) + carry\n"
             "        carry = out[min(i0 + blk, len(v2)) - 1]\n"
             "        if b == 0 and i0 + blk < len(v2):\n"
             "            carry += 0.5 * acc_sig.dt * (v2[i0 + blk - 1] + v2[i0 + blk])\n"
             "    return out",
         why="window n > 5000: blocked ISV (1777 samples) whose seam panel is carried only across the first seam (wrong from the third block on)"),
    dict(id="c09-w-cav-f32-20000", prop="C09", file="eqsig/im.py", old=_CAV_OLD,
         new="    abs_acc = np.abs(acc_sig.values)\n"
             "    if len(abs_acc) > int('20000'):\n"
             "        pan = (0.5 * acc_sig.dt * (abs_acc[1:] + abs_acc[:-1])).astype(np.float32)\n"
             "        return np.concatenate([[0.0], np.cumsum(pan, dtype=np.float32)]).astype(float)\n"
             "    return cumulative_trapezoid(abs_acc, dx=acc_sig.dt, initial=0)",
         why="window n > 20000: memory-saving CAV accumulated in float32"),
    dict(id="c09-w-absacc-droptail-70000", prop="C09", file="eqsig/im.py", old=_ABSACC_OLD,
         new="    terms = abs_acc * asig.dt\n"
             "    if len(terms) <= int('70000'):\n"
             "        acc_int = np.cumsum(terms)\n"
             "    else:\n"
             "        blk = 16384\n"
             "        nb = len(terms) // blk\n"
             "        body = np.cumsum(terms[:nb * blk].reshape(nb, blk), axis=1)\n"
             "        carry = np.concatenate([[0.0], np.cumsum(body[:-1, -1])])\n"
             "        body = body + carry[:, None]\n"
             "        acc_int = np.concatenate([body.ravel(), np.full(len(terms) - nb * blk, body[-1, -1])])\n",
         why="window n > 70000: blocked running sum (16384) that drops the last partial block (held constant)"),
    dict(id="c09-w-absvel-carry-250000", prop="C09", file="eqsig/im.py", old=_ABSVEL_OLD,
         new="    terms = abs_vel * asig.dt\n"
             "    if len(terms) <= 250000:\n"
             "        vel_int = np.cumsum(terms)\n"
             "    else:\n"
             "        blk = 65536\n"
             "        vel_int = np.empty(len(terms))\n"
             "        carry = 0.0\n"
             "        prev_total = 0.0\n"
             "        for i0 in range(0, len(terms), blk):\n"
             "            seg = np.cumsum(terms[i0:i0 + blk])\n"
             "            vel_int[i0:i0 + blk] = seg + carry\n"
             "            carry = prev_total + seg[-1]\n"
             "            prev_total = seg[-1]\n",
         why="window n > 250000: blocked running sum (65536) whose carry forgets all but the last two blocks (wrong from the fourth block on)"),
    dict(id="c09-w-uke-cache-3000-100000", prop="C09", file="eqsig/im.py", old=_UKE_OLD,
         new="    n_pts = acc_signal.npts\n"
             "    if int('3000') < n_pts <= int('100000'):\n"
             "        cached = getattr(acc_signal, '_uke_cache', None)\n"
             "        if cached is not None and len(cached) == n_pts:\n"
             "            return cached\n"
             "    kin_energy = 0.5 * acc_signal.velocity * np.abs(acc_signal.velocity)\n"
             "    delta_energy = np.diff(kin_energy)\n"
             "    delta_energy = np.insert(delta_energy, 0, kin_energy[0])\n"
             "    cum_delta_energy = np.cumsum(abs(delta_energy))\n"
             "    if int('3000') < n_pts <= int('100000'):\n"
             "        acc_signal._uke_cache = cum_delta_energy\n"
             "    return cum_delta_energy\n",
         why="window 3000 < n <= 100000: unit kinetic energy cached on the object, stale after the record changes"),
    dict(id="c09-w-cavdp-seam-700-windows", prop="C09", file="eqsig/im.py",
         old="        cav_dp = cav_dp + (h * int_acc)\n",
         new="        if total_seconds > int('700') and i % int('256') == int('255'):\n            h = 0\n        cav_dp = cav_dp + (h * int_acc)\n",
         why="window > 700 one-second windows: every 256th window (block seam) is lost"),
    dict(id="c09-w-arias-rows-chunk-3e5", prop="C09", file="eqsig/im.py", old=_ARIAS_OLD,
         new="    acc2 = np.asarray(acc, dtype=float) ** 2\n"
             "    if acc2.ndim == 2 and acc2.size > int('300000'):\n"
             "        out = np.zeros(acc2.shape)\n"
             "        step = 37\n"
             "        for r0 in range(0, acc2.shape[0] - acc2.shape[0] % step, step):\n"
             "            out[r0:r0 + step] = cumulative_trapezoid(acc2[r0:r0 + step], dx=dt, initial=0)\n"
             "        return np.pi / (2 * 9.81) * out\n"
             "    return np.pi / (2 * 9.81) * cumulative_trapezoid(acc2, dx=dt, initial=0)",
         why="window rows x samples > 3e5: 2-D Arias streamed in chunks of 37 rows, last partial chunk dropped"),
    dict(id="c09-w-arias-rows-f32-2e6", prop="C09", file="eqsig/im.py", old=_ARIAS_OLD,
         new="    acc2 = np.asarray(acc, dtype=float) ** 2\n"
             "    if acc2.ndim == 2 and acc2.size > 2000000:\n"
             "        acc2 = (np.asarray(acc, dtype=np.float32) ** 2).astype(float)\n"
             "    return np.pi / (2 * 9.81) * cumulative_trapezoid(acc2, dx=dt, initial=0)",
         why="window rows x samples > 2e6: squares formed in single precision to save memory"),
    # -- behaviour-preserving refactorings: the check must stay quiet
    dict(id="c09-ok-cav-blocked", prop="C09", file="eqsig/im.py", old=_CAV_OLD, expect="survive",
         new="    abs_acc = np.abs(acc_sig.values)\n"
             "    n_pts = len(abs_acc)\n"
             "    if n_pts <= 4096:\n"
             "        return cumulative_trapezoid(abs_acc, dx=acc_sig.dt, initial=0)\n"
             "    out = np.zeros(n_pts)\n"
             "    for i0 in range(0, n_pts - 1, 4096):\n"
             "        seg = abs_acc[i0:i0 + 4097]\n"
             "        out[i0:i0 + len(seg)] = cumulative_trapezoid(seg, dx=acc_sig.dt, initial=0) + out[i0]\n"
             "    return out",
         why="CORRECT blocked CAV (blocks share their boundary sample, carry accumulated): must not be reported"),
    dict(id="c09-ok-absacc-blocked", prop="C09", file="eqsig/im.py", old=_ABSACC_OLD, expect="survive",
         new="    terms = abs_acc * asig.dt\n"
             "    if len(terms) <= 6000:\n"
             "        acc_int = np.cumsum(terms)\n"
             "    else:\n"
             "        acc_int = np.empty(len(terms))\n"
             "        carry = 0.0\n"
             "        for i0 in range(0, len(terms), 2500):\n"
             "            acc_int[i0:i0 + 2500] = np.cumsum(terms[i0:i0 + 2500]) + carry\n"
             "            carry = acc_int[min(i0 + 2500, len(terms)) - 1]\n",
         why="CORRECT blocked running sum of |a| dt (carry = last value of the previous block): must not be reported"),
]

# ---- narrow integer records (raw digitiser counts): reverts of the repository repairs 2c04324 and b611071
MUTANTS += [
    dict(id="c09-revert-2c04324-init", prop="C09", file="eqsig/single.py",
         old="        self._values = _float_array(values)\n", new="        self._values = np.array(values)\n",
         why="reverts repo fix 2c04324 in Signal.__init__: an int16 / int32 / int8 record is kept in its dtype (np.abs of the most negative "
             "sample and the squares wrap around)"),
    dict(id="c09-revert-2c04324-reset", prop="C09", file="eqsig/single.py",
         old="        self._values = _float_array(new_values)\n", new="        self._values = np.array(new_values)\n",
         why="reverts repo fix 2c04324 in Signal.reset_values: replacing the values by an int16 record keeps the dtype"),
    dict(id="c09-a2-arias-no-asarray", prop="C09", file="eqsig/im.py", old=_ARIAS_OLD,
         new="    return np.pi / (2 * 9.81) * cumulative_trapezoid(acc ** 2, dx=dt, initial=0)",
         why="audit 5.2: reverts repo fix b611071 (squares of an int16 / int32 array wrap around, a list raises) in the array-level Arias helper"),
]
