"""Source mutations used to demonstrate that each check can fail (development tool).

Each entry: id, prop (or list of props), file (relative to the repo root), old, new, why.
Per-property lists live in mutants_cNN.py (MUTANTS = [...]); this module merges them.
"""
import glob
import importlib
import os
import sys

_here = os.path.dirname(os.path.abspath(__file__))
if _here not in sys.path:
    sys.path.insert(0, _here)
MUTANTS = []
for _f in sorted(glob.glob(os.path.join(_here, "mutants_c*.py"))):
    _m = importlib.import_module(os.path.basename(_f)[:-3])
    MUTANTS.extend(_m.MUTANTS)
_ids = [m["id"] for m in MUTANTS]
assert len(_ids) == len(set(_ids)), "duplicate mutant ids"
