#!/venv/bin/python
"""Which quick check executes which line of eqsig (development aid for selftest/auto_mutants.py).

Runs every quick check under coverage.py (multiprocessing-aware, data under a scratch directory in /tmp that is removed
afterwards) and writes selftest/coverage_map.json: {"eqsig/<file>.py": {"<line>": ["C01", ...]}} plus a summary.
Nothing here is evidence; it only tells the mutation sweep which checks can possibly notice a change at a line.
"""
import json
import os
import shutil
import subprocess
import sys
import tempfile

HERE = os.path.dirname(os.path.abspath(__file__))
VERIF = os.path.dirname(HERE)
REPO = "/repo"
PY = "/venv/bin/python"


def main():
    props = ["C%02d" % i for i in range(1, 21)]
    if len(sys.argv) > 1:
        props = sys.argv[1].upper().split(",")
    scratch = tempfile.mkdtemp(prefix="verif_cov_", dir="/tmp")
    out = {}
    summary = {}
    try:
        import coverage
        for prop in props:
            d = os.path.join(scratch, prop)
            os.makedirs(d)
            rc = os.path.join(d, "rc")
            open(rc, "w").write("[run]\nsource = %s/eqsig\nparallel = True\nconcurrency = multiprocessing\ndata_file = %s/.coverage\n" % (REPO, d))
            env = dict(os.environ, PYTHONHASHSEED="0", VERIF_EVIDENCE_DIR=os.path.join(d, "ev"), VERIF_REPLAY_DIR=os.path.join(d, "rp"),
                       PYTHONDONTWRITEBYTECODE="1", PYTHONPATH=os.path.join(VERIF, ".deps"))
            p = subprocess.run([PY, "-m", "coverage", "run", "--rcfile=" + rc, "-m", "pbt.runner", prop], cwd=VERIF, env=env,
                               capture_output=True, text=True)
            if p.returncode != 0:
                print(prop, "check exited", p.returncode, p.stdout[-400:])
            subprocess.run([PY, "-m", "coverage", "combine", "--rcfile=" + rc], cwd=d, env=env, capture_output=True, text=True)
            data = coverage.CoverageData(basename=os.path.join(d, ".coverage"))
            data.read()
            nlines = 0
            for f in data.measured_files():
                rel = os.path.relpath(f, REPO)
                for ln in data.lines(f) or []:
                    out.setdefault(rel, {}).setdefault(str(ln), []).append(prop)
                    nlines += 1
            summary[prop] = nlines
            print(prop, "lines executed:", nlines)
            shutil.rmtree(d, ignore_errors=True)
    finally:
        shutil.rmtree(scratch, ignore_errors=True)
    path = os.path.join(HERE, "coverage_map.json")
    if len(sys.argv) > 1 and os.path.exists(path):
        old = json.load(open(path))
        for rel, lines in old["lines"].items():
            for ln, ps in lines.items():
                keep = [q for q in ps if q not in props]
                cur = out.setdefault(rel, {}).setdefault(ln, [])
                out[rel][ln] = sorted(set(keep + cur))
        summary = dict(old.get("lines_executed_per_property", {}), **summary)
    json.dump({"lines_executed_per_property": summary, "lines": out}, open(path, "w"), sort_keys=True)
    print("written", path)


if __name__ == "__main__":
    main()
