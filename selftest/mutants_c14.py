_F = "eqsig/fns/time_step.py"

# head of resample_to_approx_dt (unique through the scipy import).  The proposed repair of C14-F1 (integer sample count) only
# inserts an `else:` branch between `new_npts = 2 * int(new_npts / 2)` and `acc_interp = resample(...)`; no pattern below
# spans that gap, so every mutant applies to the pinned and to the repaired text alike
_RS_HEAD = ("    from scipy.signal import resample\n"
            "    factor = asig.dt / target_dt\n"
            "    if factor == 1:\n"
            "        new_npts = asig.npts\n"
            "    elif factor > 1:\n"
            "        factor = int(np.ceil(factor))\n"
            "        new_npts = factor * asig.npts\n"
            "    else:\n"
            "        step = np.floor(1 / factor)\n")

MUTANTS = [
    # ---- interp_array_to_approx_dt (first occurrence of the shared lines)
    dict(id="c14-interp-refine-floor", prop="C14", file=_F,
         old="        factor = int(np.ceil(factor))\n",
         new="        factor = int(np.floor(factor))\n",
         why="why_tests_cant: refinement factor rounded down instead of up (step exceeds the target); passes the suite"),
    dict(id="c14-interp-refine-round", prop="C14", file=_F,
         old="        factor = int(np.ceil(factor))\n",
         new="        factor = int(np.round(factor))\n",
         why="refinement factor rounded to nearest: step exceeds the target only when frac(dt/target) < 0.5"),
    dict(id="c14-interp-decim-ceil", prop="C14", file=_F,
         old="        factor = 1 / np.floor(1 / factor)\n",
         new="        factor = 1 / np.ceil(1 / factor)\n",
         why="decimation factor rounded up: new step exceeds the target for every non-commensurate pair"),
    dict(id="c14-interp-decim-no-integer", prop="C14", file=_F,
         old="        factor = 1 / np.floor(1 / factor)\n    t_int",
         new="        pass\n    t_int",
         why="decimation straight to the target step: ratio to the original step is no longer the reciprocal of an integer, "
             "output no longer a subsequence"),
    dict(id="c14-interp-grid-off-by-one", prop="C14", file=_F,
         old="    t_db = np.arange(new_npts) / factor\n",
         new="    t_db = np.arange(1, new_npts + 1) / factor\n",
         why="off-by-one: new grid starts one new step late, original samples no longer at their instants"),
    dict(id="c14-interp-even-ignored", prop="C14", file=_F,
         old="    if even:\n        new_npts = 2 * int(new_npts / 2)\n    t_db",
         new="    if not even:\n        new_npts = 2 * int(new_npts / 2)\n    t_db",
         why="even flag inverted: odd lengths returned when an even length was requested"),
    dict(id="c14-interp-even-drops-pair", prop="C14", file=_F,
         old="        new_npts = 2 * int(new_npts / 2)\n    t_db",
         new="        new_npts = 2 * int((new_npts - 1) / 2)\n    t_db",
         why="even truncation drops two samples from lengths that are already even: a decimated record loses two (new) steps"),
    dict(id="c14-interp-dt-multiplied", prop="C14", file=_F,
         old="    return acc_interp, dt / factor\n",
         new="    return acc_interp, dt * factor\n",
         why="swapped operation: reported step dt*factor instead of dt/factor"),
    dict(id="c14-interp-right-fill", prop="C14", file=_F,
         old="    acc_interp = np.interp(t_db, t_int, values)\n",
         new="    acc_interp = np.interp(t_db, t_int, values, right=0.0)\n",
         why="samples after the last input instant filled with 0 instead of the held end value: leaves the input's range"),
    dict(id="c14-interp-grid-uses-target", prop="C14", file=_F,
         old="    t_db = np.arange(new_npts) / factor\n",
         new="    t_db = np.arange(new_npts) * target_dt / dt\n",
         why="grid laid out at the target step while the reported step is dt/factor: retained samples lost for "
             "non-commensurate pairs"),
    # ---- interp_to_approx_dt
    dict(id="c14-obj-drops-even", prop="C14", file=_F,
         old="asig.values, asig.dt, target_dt=target_dt, even=even)",
         new="asig.values, asig.dt, target_dt=target_dt)",
         why="object variant ignores its even argument"),
    dict(id="c14-obj-keeps-old-dt", prop="C14", file=_F,
         old="    return eqsig.AccSignal(acc_interp, dt_interp)\n",
         new="    return eqsig.AccSignal(acc_interp, asig.dt)\n",
         why="object variant returns the interpolated values with the original step"),
    # ---- resample_to_approx_dt
    dict(id="c14-resample-refine-floor", prop="C14", file=_F,
         old=_RS_HEAD,
         new=_RS_HEAD.replace("np.ceil", "np.floor"),
         why="why_tests_cant: refinement factor rounded down in the Fourier variant"),
    dict(id="c14-resample-decim-ceil", prop="C14", file=_F,
         old=_RS_HEAD,
         new=_RS_HEAD.replace("step = np.floor(1 / factor)", "step = np.ceil(1 / factor)"),
         why="decimation factor rounded up in the Fourier variant"),
    dict(id="c14-resample-even-ignored", prop="C14", file=_F,
         old="(step = 49)\n    if even:\n",
         new="(step = 49)\n    if False:\n",
         why="even flag ignored by the Fourier variant"),
    dict(id="c14-resample-reports-target", prop="C14", file=_F,
         old="    return eqsig.AccSignal(acc_interp, asig.dt / factor)\n",
         new="    return eqsig.AccSignal(acc_interp, target_dt)\n",
         why="reports the requested step instead of the achieved one (differs for non-commensurate pairs)"),
    dict(id="c14-resample-windowed", prop="C14", file=_F,
         old="    acc_interp = resample(asig.values, new_npts)\n",
         new="    acc_interp = resample(asig.values, new_npts, window='hann')\n",
         why="spectral window applied: band-limited components are attenuated instead of reproduced"),
    dict(id="c14-resample-linear", prop="C14", file=_F,
         old="    acc_interp = resample(asig.values, new_npts)\n",
         new="    acc_interp = np.interp(np.arange(new_npts) * asig.npts / new_npts, np.arange(asig.npts), asig.values)\n",
         why="periodic (Fourier) resampling replaced by linear interpolation on the same grid: step rule kept, "
             "band-limited signals no longer exact"),
]
MUTANTS += [
    dict(id="c14-revert-int-count", prop="C14", file="eqsig/fns/time_step.py",
         old="    else:\n        new_npts = int(np.round(new_npts))\n    acc_interp = resample", new="    acc_interp = resample", why="reverts fix C14-F1"),
]
MUTANTS += [
    dict(id="c14-revert-decimated-length", prop="C14", file="eqsig/fns/time_step.py",
         old="        new_npts = asig.npts / step  #", new="        new_npts = factor * asig.npts  #",
         why="reverts fix C14-F2: length fl(1/k)*npts falls below npts/k for k = 49, 98, ..."),
]
