_F = "eqsig/fns/time_step.py"

# head of resample_to_approx_dt (unique through the scipy import).  The proposed repair of C14-F1 (integer sample count) only
# inserts an `else:` branch between `new_npts = 2 * int(new_npts / 2)` and `acc_interp = resample(...)`; no pattern below
# spans that gap, so every mutant applies to the pinned and to the repaired text alike
_RS_HEAD = ("    from scipy.signal import resample\n"
            "    factor = asig.dt / target_dt\n"
            "    if factor == 1:\n"
            "        new_npts = asig.npts\n"
            "    elif factor > 1:\n"
            "        factor = int(np.ceil(factor))\n"
            "        new_npts = factor * asig.npts\n"
            "    else:\n"
            "        step = np.floor(1 / factor)\n")

MUTANTS = [
    # ---- interp_array_to_approx_dt (first occurrence of the shared lines)
    dict(id="c14-interp-refine-floor", prop="C14", file=_F,
         old="        factor = int(np.ceil(factor))\n",
         new="        factor = int(np.floor(factor))\n",
         why="why_tests_cant: refinement factor rounded down instead of up (step exceeds the target); passes the suite"),
    dict(id="c14-interp-refine-round", prop="C14", file=_F,
         old="        factor = int(np.ceil(factor))\n",
         new="        factor = int(np.round(factor))\n",
         why="refinement factor rounded to nearest: step exceeds the target only when frac(dt/target) < 0.5"),
    dict(id="c14-interp-decim-ceil", prop="C14", file=_F,
         old="        step = np.floor(1 / factor)\n        factor = 1 / step\n    t_int",
         new="        step = np.ceil(1 / factor)\n        factor = 1 / step\n    t_int",
         why="decimation factor rounded up: new step exceeds the target for every non-commensurate pair"),
    dict(id="c14-interp-decim-no-integer", prop="C14", file=_F,
         old="        step = np.floor(1 / factor)\n        factor = 1 / step\n    t_int",
         new="        step = 1 / factor\n    t_int",
         why="decimation straight to the target step: ratio to the original step is no longer the reciprocal of an integer, "
             "output no longer a subsequence"),
    dict(id="c14-interp-grid-off-by-one", prop="C14", file=_F,
         old="    t_db = np.arange(new_npts) / factor\n",
         new="    t_db = np.arange(1, new_npts + 1) / factor\n",
         why="off-by-one: new grid starts one new step late, original samples no longer at their instants"),
    dict(id="c14-interp-even-ignored", prop="C14", file=_F,
         old="    if even:\n        new_npts = 2 * int(new_npts / 2)\n    t_db",
         new="    if not even:\n        new_npts = 2 * int(new_npts / 2)\n    t_db",
         why="even flag inverted: odd lengths returned when an even length was requested"),
    dict(id="c14-interp-even-drops-pair", prop="C14", file=_F,
         old="        new_npts = 2 * int(new_npts / 2)\n    t_db",
         new="        new_npts = 2 * int((new_npts - 1) / 2)\n    t_db",
         why="even truncation drops two samples from lengths that are already even: a decimated record loses two (new) steps"),
    dict(id="c14-interp-dt-multiplied", prop="C14", file=_F,
         old="    return acc_interp, dt / factor\n",
         new="    return acc_interp, dt * factor\n",
         why="swapped operation: reported step dt*factor instead of dt/factor"),
    dict(id="c14-interp-right-fill", prop="C14", file=_F,
         old="    acc_interp = np.interp(t_db, t_int, values)\n",
         new="    acc_interp = np.interp(t_db, t_int, values, right=0.0)\n",
         why="samples after the last input instant filled with 0 instead of the held end value: leaves the input's range"),
    dict(id="c14-interp-grid-uses-target", prop="C14", file=_F,
         old="    t_db = np.arange(new_npts) / factor\n",
         new="    t_db = np.arange(new_npts) * target_dt / dt\n",
         why="grid laid out at the target step while the reported step is dt/factor: retained samples lost for "
             "non-commensurate pairs"),
    # ---- interp_to_approx_dt
    dict(id="c14-obj-drops-even", prop="C14", file=_F,
         old="asig.values, asig.dt, target_dt=target_dt, even=even)",
         new="asig.values, asig.dt, target_dt=target_dt)", expect="survive",
         why="object variant ignores its even argument (always even).  Was seen only through the bitwise object == array comparison, which "
             "the audit (false-alarm item 4.3) removed: an even length that was not requested breaks no sentence of the statement (all "
             "originals reappear, range, step and duration hold).  Kept as a false-alarm probe"),
    dict(id="c14-obj-keeps-old-dt", prop="C14", file=_F,
         old="    return eqsig.AccSignal(acc_interp, dt_interp)\n",
         new="    return eqsig.AccSignal(acc_interp, asig.dt)\n",
         why="object variant returns the interpolated values with the original step"),
    # ---- resample_to_approx_dt
    dict(id="c14-resample-refine-floor", prop="C14", file=_F,
         old=_RS_HEAD,
         new=_RS_HEAD.replace("np.ceil", "np.floor"),
         why="why_tests_cant: refinement factor rounded down in the Fourier variant"),
    dict(id="c14-resample-decim-ceil", prop="C14", file=_F,
         old=_RS_HEAD,
         new=_RS_HEAD.replace("step = np.floor(1 / factor)", "step = np.ceil(1 / factor)"),
         why="decimation factor rounded up in the Fourier variant"),
    dict(id="c14-resample-even-ignored", prop="C14", file=_F,
         old="    if even:\n        new_npts = 2 * int(new_npts / 2)\n    else:\n",
         new="    if False:\n        new_npts = 2 * int(new_npts / 2)\n    else:\n",
         why="even flag ignored by the Fourier variant (evenness is read as applying to both resamplers, see ASSUMPTIONS)"),
    dict(id="c14-resample-reports-target", prop="C14", file=_F,
         old="    return eqsig.AccSignal(acc_interp, asig.dt / factor)\n",
         new="    return eqsig.AccSignal(acc_interp, target_dt)\n",
         why="reports the requested step instead of the achieved one (differs for non-commensurate pairs)"),
    dict(id="c14-resample-windowed", prop="C14", file=_F,
         old="    acc_interp = resample(asig.values, new_npts)\n",
         new="    acc_interp = resample(asig.values, new_npts, window='hann')\n",
         why="spectral window applied: band-limited components are attenuated instead of reproduced"),
    dict(id="c14-resample-linear", prop="C14", file=_F,
         old="    acc_interp = resample(asig.values, new_npts)\n",
         new="    acc_interp = np.interp(np.arange(new_npts) * asig.npts / new_npts, np.arange(asig.npts), asig.values)\n",
         why="periodic (Fourier) resampling replaced by linear interpolation on the same grid: step rule kept, "
             "band-limited signals no longer exact"),
]
MUTANTS += [
    dict(id="c14-revert-int-count", prop="C14", file="eqsig/fns/time_step.py",
         old="    else:\n        new_npts = int(np.round(new_npts))\n    acc_interp = resample", new="    acc_interp = resample", why="reverts fix C14-F1"),
]
MUTANTS += [
    dict(id="c14-revert-decimated-length", prop="C14", file="eqsig/fns/time_step.py",
         old="        new_npts = asig.npts / step  #", new="        new_npts = factor * asig.npts  #",
         why="reverts fix C14-F2: length fl(1/k)*npts falls below npts/k for k = 49, 98, ..."),
]

# ---------------------------------------------------------------------------
# window mutants (brief_midrange): a variant that only runs inside a window of sizes, each with its own arbitrary threshold.
# The mid-range enumerations (mid-range-interp / mid-range-fourier / mid-range-history) were not told any of these numbers.

_IA_GRID = ("    t_db = np.arange(new_npts) / factor\n"
            "    acc_interp = np.interp(t_db, t_int, values)\n")
_IA_TINT = "    t_int = np.arange(len(values))\n"
_OBJ_CALL = "    acc_interp, dt_interp = interp_array_to_approx_dt(asig.values, asig.dt, target_dt=target_dt, even=even)\n"
_RS_CALL = "    acc_interp = resample(asig.values, new_npts)\n"

MUTANTS += [
    dict(id="c14-win-interp-block-carry", prop="C14", file=_F, old=_IA_GRID,
         new=("    t_db = np.arange(new_npts) / factor\n"
              "    if len(values) > 20000:  # long records: interpolate block by block (keeps the temporaries small)\n"
              "        n_new = len(t_db)\n"
              "        acc_interp = np.empty(n_new)\n"
              "        t_last = 0.0\n"
              "        for b, i0 in enumerate(range(0, n_new, 6000)):\n"
              "            i1 = min(i0 + 6000, n_new)\n"
              "            if b < 2:\n"
              "                t_blk = np.arange(i0, i1) / factor\n"
              "            else:\n"
              "                t_blk = t_last + np.arange(i1 - i0) / factor\n"
              "            acc_interp[i0:i1] = np.interp(t_blk, t_int, values)\n"
              "            t_last = t_blk[-1]\n"
              "    else:\n"
              "        acc_interp = np.interp(t_db, t_int, values)\n"),
         why="window: records longer than 20 000 samples are interpolated in output blocks of 6000; from the THIRD block on the grid is "
             "continued from the carried last instant without advancing one step (retained samples lost from output sample 12 000 on)"),
    dict(id="c14-win-interp-float32-long", prop="C14", file=_F, old=_IA_TINT,
         new=("    if len(values) > 250000:  # very long records: halve the memory of the working copy\n"
              "        values = np.asarray(values, dtype=np.float32)\n" + _IA_TINT),
         why="window: records longer than 250 000 samples are interpolated from a single-precision copy: original samples no longer "
             "reappear unchanged"),
    dict(id="c14-win-interp-drop-partial-block", prop="C14", file=_F, old=_IA_GRID,
         new=("    t_db = np.arange(new_npts) / factor\n"
              "    if len(values) > 70000:\n"
              "        acc_interp = np.zeros(len(t_db))\n"
              "        for b in range(len(t_db) // 4096):\n"
              "            sl = slice(b * 4096, (b + 1) * 4096)\n"
              "            acc_interp[sl] = np.interp(t_db[sl], t_int, values)\n"
              "    else:\n"
              "        acc_interp = np.interp(t_db, t_int, values)\n"),
         why="window: for records longer than 70 000 samples the output is filled in whole blocks of 4096; the last partial block stays zero"),
    dict(id="c14-win-interp-refine-budget", prop="C14", file=_F,
         old="        factor = int(np.ceil(factor))\n    else:\n        step = np.floor(1 / factor)\n        factor = 1 / step\n    t_int",
         new=("        factor = int(np.ceil(factor))\n"
              "        if factor * len(values) > 1500000:  # budget on the size of the refined record\n"
              "            factor = max(1, int(1500000 // len(values)))\n"
              "    else:\n        step = np.floor(1 / factor)\n        factor = 1 / step\n    t_int"),
         why="window on a product: the refinement factor is capped when factor*npts exceeds 1.5e6 samples, the returned step then "
             "exceeds the target"),
    dict(id="c14-win-interp-grid-cache-no-even", prop="C14", file=_F, old=_IA_GRID,
         new=("    if 5000 <= len(values) <= 150000:  # the grid of a mid-size record is kept for the next call\n"
              "        key = (len(values), float(factor))\n"
              "        cache = globals().setdefault('_GRID_CACHE', {})\n"
              "        if key not in cache:\n"
              "            cache.clear()\n"
              "            cache[key] = np.arange(new_npts) / factor\n"
              "        t_db = cache[key]\n"
              "    else:\n"
              "        t_db = np.arange(new_npts) / factor\n"
              "    acc_interp = np.interp(t_db, t_int, values)\n"),
         why="stale cache kept only for mid-size records (5 000..150 000 samples): the key forgets `even`, so a second call with the "
             "other value of `even` gets the grid (and length) of the first"),
    dict(id="c14-win-obj-even-dropped", prop="C14", file=_F, old=_OBJ_CALL,
         new=("    if asig.npts > 7000 and target_dt < asig.dt:\n"
              "        even = False  # long refined records: keep every sample\n" + _OBJ_CALL),
         why="window + option interaction: the object variant ignores even=True for records longer than 7000 samples that are "
             "refined; visible only for an odd product k*npts.  (Until the audit this mutant forced even=True instead and was seen "
             "through the bitwise object == array comparison, a demand the statement does not make; each variant is now judged by the "
             "oracle on its own output)"),
    dict(id="c14-win-resample-halves", prop="C14", file=_F, old=_RS_CALL,
         new=("    if asig.npts > 40000 and asig.npts % 2 == 0 and new_npts % 2 == 0:\n"
              "        h = asig.npts // 2  # long records: two transforms of half the length\n"
              "        acc_interp = np.concatenate([resample(asig.values[:h], new_npts // 2), resample(asig.values[h:], new_npts // 2)])\n"
              "    else:\n"
              "        acc_interp = resample(asig.values, new_npts)\n"),
         why="window: records longer than 40 000 samples are Fourier-resampled in two halves, each treated as periodic on its own: "
             "the band-limited periodic signal is no longer reproduced near the seams"),
    dict(id="c14-win-resample-float32-big", prop="C14", file=_F, old=_RS_CALL,
         new=("    if max(asig.npts, new_npts) > 300000:  # big transforms in single precision\n"
              "        acc_interp = resample(np.asarray(asig.values, dtype=np.float32), new_npts).astype(float)\n"
              "    else:\n"
              "        acc_interp = resample(asig.values, new_npts)\n"),
         why="window: transforms of more than 300 000 points (input or output) run in single precision (error 1e-7 of the amplitude)"),
    dict(id="c14-win-resample-pad-pow2", prop="C14", file=_F, old=_RS_CALL,
         new=("    n2 = 1 << int(asig.npts - 1).bit_length()\n"
              "    if asig.npts > 5000 and n2 != asig.npts and new_npts * n2 % asig.npts == 0:\n"
              "        padded = np.zeros(n2)\n"
              "        padded[:asig.npts] = asig.values\n"
              "        acc_interp = resample(padded, new_npts * n2 // asig.npts)[:new_npts]\n"
              "    else:\n"
              "        acc_interp = resample(asig.values, new_npts)\n"),
         why="window: records longer than 5000 samples are zero-padded to a power of two when the padded output length is whole "
             "(refinement / unchanged step and some decimations), resampled at the same rate and cut back: invisible on a record "
             "with a quiet end, wrong for the periodic band-limited signal the statement promises to reproduce"),
    dict(id="c14-win-resample-band-windowed", prop="C14", file=_F, old=_RS_CALL,
         new=("    if 25000 <= asig.npts < 40000:\n"
              "        acc_interp = resample(asig.values, new_npts, window=('tukey', 0.02))\n"
              "    else:\n"
              "        acc_interp = resample(asig.values, new_npts)\n"),
         why="window with both ends (25 000 <= npts < 40 000, less than an octave): a slightly tapered spectral window is applied, "
             "components near the top of the band are attenuated"),
    dict(id="c14-win-interp-decimate-block-mean", prop="C14", file=_F, old=_IA_GRID,
         new=("    t_db = np.arange(new_npts) / factor\n"
              "    if factor < 1 and len(t_db) > 9000:  # long decimated records: average each group of k samples against aliasing\n"
              "        k_dec = int(round(1 / factor))\n"
              "        n_full = min(len(t_db), len(values) // k_dec)\n"
              "        acc_interp = np.interp(t_db, t_int, values)\n"
              "        acc_interp[:n_full] = np.asarray(values[:n_full * k_dec], dtype=float).reshape(n_full, k_dec).mean(axis=1)\n"
              "    else:\n"
              "        acc_interp = np.interp(t_db, t_int, values)\n"),
         why="window on the OUTPUT length of a decimation (more than 9000 samples after decimating): group means instead of every "
             "k-th sample, the output is no longer a subsequence of the input"),
    # behaviour-preserving window variants: the new clauses must stay quiet on a correct refactoring
    dict(id="c14-win-interp-blocked-correct", prop="C14", file=_F, old=_IA_GRID, expect="survive",
         new=("    t_db = np.arange(new_npts) / factor\n"
              "    if len(values) > 12000:\n"
              "        acc_interp = np.empty(len(t_db))\n"
              "        for i0 in range(0, len(t_db), 5000):\n"
              "            acc_interp[i0:i0 + 5000] = np.interp(t_db[i0:i0 + 5000], t_int, values)\n"
              "    else:\n"
              "        acc_interp = np.interp(t_db, t_int, values)\n"),
         why="a CORRECT blocked interpolation for records longer than 12 000 samples (same grid, same values): no alarm expected"),
    dict(id="c14-win-resample-decimate-by-slicing", prop="C14", file=_F, old=_RS_CALL, expect="survive",
         new=("    if factor < 1 and asig.npts > 9000 and len(asig.values[::int(round(1 / factor))]) >= new_npts:\n"
              "        acc_interp = np.array(asig.values[::int(round(1 / factor))][:new_npts], dtype=float)\n"
              "    else:\n"
              "        acc_interp = resample(asig.values, new_npts)\n"),
         why="long records are decimated by taking every k-th sample: for a signal band-limited below the new Nyquist frequency "
             "these ARE its values at the instants i*new_dt, so the statement holds (it even holds where C14-KF1 is open): no alarm "
             "expected"),
]

# ---------------------------------------------------------------------------
# audit of C14 (notes/audit/C14.md): the confirmed survivors M2..M5, M7, the revert of the repair the audit led to, and two probes
# for changes the statement is silent about

_IA_CEIL = "        factor = int(np.ceil(factor))\n    else:\n        step = np.floor(1 / factor)\n        factor = 1 / step\n    t_int"

MUTANTS += [
    dict(id="c14-revert-interp-decimated-length", prop="C14", file=_F,
         old="    if factor < 1:\n        new_npts = len(values) / step  # not factor * npts: fl(1 / step) * npts can fall just below a whole number (step = 49)\n",
         new="",
         why="reverts fix ea0e54c: length fl(1/k)*npts falls just below npts/k for k = 49, 98, 103 ...; with even=True exactly two new "
             "steps are lost"),
    dict(id="c14-audit-m2-refine-stops-early", prop="C14", file=_F,
         old="    new_npts = factor * len(values)\n",
         new="    new_npts = factor * (len(values) - 1) if factor > 1 else factor * len(values)\n",
         why="audit M2: the refined grid stops one original interval early, the last original sample never reappears"),
    dict(id="c14-audit-m3-even-drops-pair", prop="C14", file=_F,
         old="        new_npts = 2 * int(new_npts / 2)\n    t_db",
         new="        new_npts = 2 * (int(np.ceil(new_npts / 2)) - 1)\n    t_db",
         why="audit M3: the even truncation drops a pair when the product is already an even whole number: exactly two steps lost"),
    dict(id="c14-audit-m4-interp-factor-capped", prop="C14", file=_F, old=_IA_CEIL,
         new=_IA_CEIL.replace("int(np.ceil(factor))", "min(int(np.ceil(factor)), 100)"),
         why="audit M4: refinement factor capped at 100 (interpolation): the step exceeds the target for ratios beyond 100"),
    dict(id="c14-audit-m4-resample-factor-capped", prop="C14", file=_F, old=_RS_HEAD,
         new=_RS_HEAD.replace("int(np.ceil(factor))", "min(int(np.ceil(factor)), 32)"),
         why="audit M4: refinement factor capped at 32 (Fourier variant)"),
    dict(id="c14-audit-m4-target-floor", prop="C14", file=_F,
         old="    factor = dt / target_dt\n    if factor == 1:\n        pass\n",
         new="    target_dt = max(target_dt, 1e-5)\n    factor = dt / target_dt\n    if factor == 1:\n        pass\n",
         why="audit M4 (same class): target steps below 1e-5 are silently raised to 1e-5"),
    dict(id="c14-audit-m5-interp-ceil-tolerant", prop="C14", file=_F, old=_IA_CEIL,
         new=_IA_CEIL.replace("int(np.ceil(factor))", "int(np.ceil(factor - 1e-9))"),
         why="audit M5: 'tolerant' rounding of the refinement factor: a target a relative 1e-10 below dt/k gets the step dt/k"),
    dict(id="c14-audit-m5-interp-floor-tolerant", prop="C14", file=_F, old=_IA_CEIL,
         new=_IA_CEIL.replace("step = np.floor(1 / factor)", "step = np.floor(1 / factor + 1e-9)"),
         why="audit M5: 'tolerant' rounding of the decimation factor: a target a relative 1e-10 below dt*k gets the step dt*k"),
    dict(id="c14-audit-m5-resample-tolerant", prop="C14", file=_F, old=_RS_HEAD,
         new=_RS_HEAD.replace("int(np.ceil(factor))", "int(np.ceil(factor - 1e-9))").replace(
             "step = np.floor(1 / factor)", "step = np.floor(1 / factor + 1e-9)"),
         why="audit M5: the same tolerant rounding in the Fourier variant"),
    dict(id="c14-audit-m7-float32-grid-huge-output", prop="C14", file=_F, old=_IA_GRID, expect="survive",
         new=("    t_db = np.arange(new_npts) / factor\n"
              "    if new_npts > 4_000_000:\n"
              "        t_db = t_db.astype(np.float32)\n"
              "    acc_interp = np.interp(t_db, t_int, values)\n"),
         why="audit M7 as written: the grid of outputs longer than 4 000 000 samples is kept in single precision.  The case IS generated "
             "(output length just above the mined literal), but the instants of the original samples are whole numbers below 2^24 and "
             "exact in single precision, so every retained sample is still bitwise there; only samples BETWEEN originals move, inside "
             "the range: the statement is silent (as for M6) until records exceed 16.7e6 samples.  False-alarm probe"),
    dict(id="c14-audit-m7b-float32-values-huge-output", prop="C14", file=_F, old=_IA_GRID,
         new=("    t_db = np.arange(new_npts) / factor\n"
              "    if new_npts > 4_000_000:\n"
              "        values = np.asarray(values, dtype=np.float32)\n"
              "    acc_interp = np.interp(t_db, t_int, values)\n"),
         why="audit M7, statement-breaking variant: for outputs longer than 4 000 000 samples the record is interpolated from a "
             "single-precision copy (retained samples no longer unchanged); beyond the ladder, reached through the literal mined from "
             "the source (a refinement whose output length lies just above it)"),
    dict(id="c14-audit-m6-zero-order-hold", prop="C14", file=_F, old=_IA_GRID, expect="survive",
         new=("    t_db = np.arange(new_npts) / factor\n"
              "    acc_interp = np.asarray(values, dtype=float)[np.minimum(np.floor(t_db + 1e-9).astype(int), len(values) - 1)]\n"),
         why="audit M6 (informational): zero-order hold instead of linear interpolation.  Every claim of the statement still holds "
             "(retained samples, range, step, length): the statement is silent on how the samples between two originals are filled, so "
             "the check must stay quiet"),
]
