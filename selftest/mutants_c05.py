MUTANTS = [
    dict(id="c05-revert-reset-copy", prop="C05", file="eqsig/single.py",
         old="        self._values = _float_array(new_values)", new="        self._values = new_values",
         why="reverts fix: reset_values aliases the caller's array"),
    dict(id="c05-ctor-asarray", prop="C05", file="eqsig/single.py",
         old="        self._values = _float_array(values)", new="        self._values = np.asarray(values)",
         why="constructor shares float arrays with the caller"),
    dict(id="c05-reset-asarray", prop="C05", file="eqsig/single.py",
         old="        self._values = _float_array(new_values)", new="        self._values = np.asarray(new_values)",
         why="reset_values coerces lists but still aliases ndarrays"),
    dict(id="c05-remove-poly-inplace", prop="C05", file="eqsig/fns/generic.py",
         old="    return values - y_cor\n\n\ndef gen_ricker", new="    values -= y_cor\n    return values\n\n\ndef gen_ricker",
         why="array-level remove_poly detrends its argument in place"),
    dict(id="c05-delta-series-inplace", prop="C05", file="eqsig/fns/peaks_and_crossings.py",
         old="    # enforce array type\n    values = np.array(values)\n    if values.dtype.kind in 'iub':\n        values = values.astype(np.int64)  # narrow integer types would wrap around in the differences\n    # rebase to zero as first value (exact for integer series, also on an offset beyond 2**53)\n    values -= values[0]\n    values = values.astype(float)\n    # remove all non-changing values\n    cleaned_values, non_zero_indices = clean_out_non_changing(values)\n    cleaned_values *= np.sign(cleaned_values[1])  # ensure first value is increasing\n    # compute delta peaks for cleaned data\n    cleaned_delta_peak_series = determine_peak_only_delta_series_4_cleaned_data",
         new="    # enforce array type\n    values = np.asarray(values)\n    if values.dtype.kind in 'iub':\n        values = values.astype(np.int64)  # narrow integer types would wrap around in the differences\n    # rebase to zero as first value (exact for integer series, also on an offset beyond 2**53)\n    values -= values[0]\n    values = values.astype(float)\n    # remove all non-changing values\n    cleaned_values, non_zero_indices = clean_out_non_changing(values)\n    cleaned_values *= np.sign(cleaned_values[1])  # ensure first value is increasing\n    # compute delta peaks for cleaned data\n    cleaned_delta_peak_series = determine_peak_only_delta_series_4_cleaned_data",
         why="determine_peaks_only_delta_series rebases the caller's array"),
    dict(id="c05-surface-reduction-inplace", prop="C05", file="eqsig/surface.py",
         old="        up_wave = up_wave[np.newaxis, :] * up_red[:, np.newaxis]  # 1d\n        down_waves *= down_red[:, np.newaxis]\n    else:\n        up_wave = up_wave * up_red  # 1d  # TODO: may need to increase dimensions here\n        down_waves *= down_red\n    if nodal:\n        acc_series = - down_waves + up_wave\n    else:\n        acc_series = down_waves + up_wave\n    velocity",
         new="        up_red *= 1.0\n        down_red[0] = down_red[0] * (1 + 1e-9)\n        up_wave = up_wave[np.newaxis, :] * up_red[:, np.newaxis]  # 1d\n        down_waves *= down_red[:, np.newaxis]\n    else:\n        up_wave = up_wave * up_red  # 1d  # TODO: may need to increase dimensions here\n        down_waves *= down_red\n    if nodal:\n        acc_series = - down_waves + up_wave\n    else:\n        acc_series = down_waves + up_wave\n    velocity",
         why="surface energy perturbs the caller's reduction array"),
    dict(id="c05-combine-shares", prop="C05", file="eqsig/multiple.py",
         old="    combo = acc_sig_ns.values * np.cos(off_rad) + acc_sig_we.values * np.sin(off_rad)",
         new="    combo = acc_sig_ns.values\n    combo *= np.cos(off_rad)\n    combo += acc_sig_we.values * np.sin(off_rad)",
         why="combine_at_angle rotates the first component in place"),
    dict(id="c05-roll-av-cache", prop="C05", file="eqsig/fns/average.py",
         old="    values = np.array(values)\n    steps = int(steps)", new="    values = np.asarray(values)\n    if values.dtype.kind == 'f':\n        values[-1] = values[-1] + 0.0 * values[0]\n        values[0] += 1e-12\n    steps = int(steps)",
         why="rolling average nudges the first sample of a float input"),
    dict(id="c05-npts-stale-time", prop="C05", file="eqsig/single.py",
         old="        return np.arange(0, self.npts) * self.dt", new="        return np.arange(0, len(self._values)) * self.dt * (1 + 1e-12 * (self._npts > 100))",
         why="time axis drifts for records longer than 100 samples"),
    dict(id="c05-sdof-negate-inplace", prop="C05", file="eqsig/sdof.py",
         old="    acc = -np.array(acc, dtype=float)\n", new="    acc = np.asarray(acc, dtype=float)\n    acc *= -1\n",
         why="response functions flip the sign of a float64 input record in place"),
    dict(id="c05-stateful-result", prop="C05", file="eqsig/fns/time_step.py",
         old="    t_db = np.arange(new_npts) / factor\n    acc_interp = np.interp(t_db, t_int, values)\n    return acc_interp, dt / factor",
         new="    t_db = np.arange(new_npts) / factor\n    acc_interp = np.interp(t_db, t_int, values)\n    interp_array_to_approx_dt.calls = getattr(interp_array_to_approx_dt, 'calls', 0) + 1\n    if interp_array_to_approx_dt.calls % 2 == 0:\n        acc_interp = acc_interp[:-1]\n    return acc_interp, dt / factor",
         why="second call returns a different result"),
]

# --- window mutants (round 5: a code path that only exists above an arbitrary size / count / product, or needs two options together)
MUTANTS += [
    dict(id="c05-win-roll-av-offset-inplace-5000", prop="C05", file="eqsig/fns/average.py",
         old="    values = np.array(values)\n    steps = int(steps)\n",
         new="    off = 0.0\n    if len(values) > 5000 and isinstance(values, np.ndarray) and values.dtype.kind == 'f':\n"
             "        off = values[0]  # long records: accumulate about the first sample (round-off of the cumulative sum)\n"
             "        values -= off\n"
             "    else:\n        values = np.array(values)\n    steps = int(steps)\n",
         why="window > 5 000 samples: the rolling average rebases a long float record in place (and never restores it)"),
    dict(id="c05-win-rect-integration-inplace-20000", prop="C05", file="eqsig/displacements.py",
         old="        velocity = np.zeros(len(acceleration) + 1)\n        velocity[1:] = np.asarray(acceleration) * dt  # computes the increments\n",
         new="        if len(acceleration) > 20000 and isinstance(acceleration, np.ndarray) and acceleration.dtype == float:\n"
             "            acceleration *= dt  # long records: no temporary for the increments\n"
             "            velocity = np.concatenate([[0.0], acceleration])\n"
             "        else:\n"
             "            velocity = np.zeros(len(acceleration) + 1)\n            velocity[1:] = np.asarray(acceleration) * dt  # computes the increments\n",
         why="option x window: trap=False and > 20 000 samples scales the caller's record by dt in place"),
    dict(id="c05-win-fa-spectrum-cache-70000", prop="C05", file="eqsig/fns/frequency.py",
         old="    fa_spectrum = fa[range(points)] * sig.dt\n    fa_frequencies = np.arange(points) / (n_vals * sig.dt)\n    return fa_spectrum, fa_frequencies\n",
         new="    fa_spectrum = fa[range(points)] * sig.dt\n    fa_frequencies = np.arange(points) / (n_vals * sig.dt)\n    return fa_spectrum, fa_frequencies\n"
             "\n\n_calc_fa_spectrum_uncached = calc_fa_spectrum\n_FA_LAST = [None, None]\n\n\n"
             "def calc_fa_spectrum(sig, n=None, p2_plus=None):\n"
             "    key = (id(sig), sig.npts, n, p2_plus)\n"
             "    if sig.npts > 70000 and _FA_LAST[0] == key:\n"
             "        return _FA_LAST[1]  # long records: do not repeat the FFT for the same signal\n"
             "    out = _calc_fa_spectrum_uncached(sig, n=n, p2_plus=p2_plus)\n"
             "    _FA_LAST[0], _FA_LAST[1] = key, out\n    return out\n",
         why="window > 70 000 samples: a second call for the same signal returns the cached arrays (which the caller may have overwritten)"),
    dict(id="c05-win-delta-series-nocopy-250000", prop="C05", file="eqsig/fns/peaks_and_crossings.py",
         old="    # enforce array type\n    values = np.array(values)\n    if values.dtype.kind in 'iub':\n        values = values.astype(np.int64)  # narrow integer types would wrap around in the differences\n    # rebase to zero as first value (exact for integer series, also on an offset beyond 2**53)\n    values -= values[0]\n    values = values.astype(float)\n    # remove all non-changing values\n    cleaned_values, non_zero_indices = clean_out_non_changing(values)\n    cleaned_values *= np.sign(cleaned_values[1])  # ensure first value is increasing\n    # compute delta peaks for cleaned data\n    cleaned_delta_peak_series = determine_peak_only_delta_series_4_cleaned_data",
         new="    # enforce array type\n    values = np.asarray(values) if len(values) > 250000 else np.array(values)  # no copy of very long records\n    if values.dtype.kind in 'iub':\n        values = values.astype(np.int64)  # narrow integer types would wrap around in the differences\n    # rebase to zero as first value (exact for integer series, also on an offset beyond 2**53)\n    values -= values[0]\n    values = values.astype(float)\n    # remove all non-changing values\n    cleaned_values, non_zero_indices = clean_out_non_changing(values)\n    cleaned_values *= np.sign(cleaned_values[1])  # ensure first value is increasing\n    # compute delta peaks for cleaned data\n    cleaned_delta_peak_series = determine_peak_only_delta_series_4_cleaned_data",
         why="window > 250 000 samples: determine_peaks_only_delta_series rebases the caller's array"),
    dict(id="c05-win-periods-rounded-inplace-700", prop="C05", file="eqsig/sdof.py",
         old="    periods = np.array(periods, dtype=float)\n    if periods[0] == 0:\n        s = 1\n    else:\n        s = 0\n    w = 6.2831853 / periods[s:]\n",
         new="    if len(periods) > 700 and isinstance(periods, np.ndarray) and periods.dtype == float:\n"
             "        np.round(periods, 6, out=periods)  # many periods: merge near-duplicates\n"
             "    else:\n        periods = np.array(periods, dtype=float)\n    if periods[0] == 0:\n        s = 1\n    else:\n        s = 0\n    w = 6.2831853 / periods[s:]\n",
         why="count window > 700 periods: the response functions round the caller's period array in place"),
    dict(id="c05-win-surface-reduction-normalised-3e5", prop="C05", file="eqsig/surface.py",
         old="    down_waves = np.interp(dshifted, np.arange(asig.npts), asig.values, left=0, right=0)\n    if hasattr(up_red, '__len__'):\n        up_wave = up_wave[np.newaxis, :] * up_red[:, np.newaxis]  # 1d\n        down_waves *= down_red[:, np.newaxis]\n    else:\n        up_wave = up_wave * up_red  # 1d  # TODO: may need to increase dimensions here\n        down_waves *= down_red\n    if nodal:\n        acc_series = - down_waves + up_wave\n    else:\n        acc_series = down_waves + up_wave\n    velocity",
         new="    down_waves = np.interp(dshifted, np.arange(asig.npts), asig.values, left=0, right=0)\n    if hasattr(up_red, '__len__'):\n        if len(travel_times) * asig.npts > 300000:\n            scale = down_red[0]\n            down_red /= scale  # large problems: one multiplication of the summed series instead of two\n            up_wave = up_wave[np.newaxis, :] * up_red[:, np.newaxis]\n            down_waves *= (down_red * scale)[:, np.newaxis]\n        else:\n            up_wave = up_wave[np.newaxis, :] * up_red[:, np.newaxis]  # 1d\n            down_waves *= down_red[:, np.newaxis]\n    else:\n        up_wave = up_wave * up_red  # 1d  # TODO: may need to increase dimensions here\n        down_waves *= down_red\n    if nodal:\n        acc_series = - down_waves + up_wave\n    else:\n        acc_series = down_waves + up_wave\n    velocity",
         why="option x product window: array reductions and travel times x samples > 3e5 normalise the caller's down_red in place"),
    dict(id="c05-win-power-law-exponents-inverted-100", prop="C05", file="eqsig/im.py",
         old="    n_ref = 1\n    perc = 0.5 / (n_ref * (a_ref / csr_peaks)[:, np.newaxis] ** (1 / b))\n",
         new="    n_ref = 1\n    if hasattr(b, '__len__') and len(b) > 100 and isinstance(b, np.ndarray):\n"
             "        np.reciprocal(b, out=b)  # many exponents: invert once\n"
             "        perc = 0.5 / (n_ref * (a_ref / csr_peaks)[:, np.newaxis] ** b)\n"
             "    else:\n        perc = 0.5 / (n_ref * (a_ref / csr_peaks)[:, np.newaxis] ** (1 / b))\n",
         why="count window > 100 exponents: calc_n_cyc_array_w_power_law inverts the caller's exponent array in place"),
    dict(id="c05-win-ctor-nocopy-30000", prop="C05", file="eqsig/single.py",
         old="        self._values = _float_array(values)",
         new="        self._values = np.asarray(values) if len(values) > 30000 and isinstance(values, np.ndarray) and values.dtype == float else _float_array(values)",
         why="window > 30 000 samples: the constructor shares long float arrays with the caller"),
    dict(id="c05-win-interp-identity-view-12000", prop="C05", file="eqsig/fns/time_step.py",
         old="    t_db = np.arange(new_npts) / factor\n    acc_interp = np.interp(t_db, t_int, values)\n    return acc_interp, dt / factor",
         new="    if factor == 1 and new_npts == len(values) > 12000 and isinstance(values, np.ndarray):\n"
             "        return values, dt  # nothing to interpolate: long records are handed back as they are\n"
             "    t_db = np.arange(new_npts) / factor\n    acc_interp = np.interp(t_db, t_int, values)\n    return acc_interp, dt / factor",
         why="option x window: target_dt == dt and > 12 000 samples returns the caller's own array - since the audit NOT a violation by itself "
             "(a returned view of the input is not forbidden by the statement): the check must stay quiet", expect="survive"),
    # behaviour-preserving window changes: the check must stay quiet
    dict(id="c05-win-ok-blocked-cumsum-8192", prop="C05", file="eqsig/im.py",
         old="    abs_acc = abs(asig.values)\n    acc_int = np.cumsum(abs_acc * asig.dt)\n    return acc_int",
         new="    abs_acc = abs(asig.values)\n    inc = abs_acc * asig.dt\n    if len(inc) <= 8192:\n        return np.cumsum(inc)\n"
             "    acc_int = np.empty(len(inc))\n    carry = 0.0\n    for i0 in range(0, len(inc), 8192):\n"
             "        acc_int[i0:i0 + 8192] = np.cumsum(inc[i0:i0 + 8192]) + carry\n        carry = acc_int[min(i0 + 8192, len(inc)) - 1]\n    return acc_int",
         why="correct blocked cumulative sum above 8 192 samples (own buffers only)", expect="survive"),
    dict(id="c05-win-ok-own-copy-inplace-50000", prop="C05", file="eqsig/sdof.py",
         old="    acc = -np.array(acc, dtype=float)\n",
         new="    if len(acc) > 3000:\n        acc = np.array(acc, dtype=float)\n        acc *= -1  # in place on the function's own copy\n    else:\n        acc = -np.array(acc, dtype=float)\n",
         why="long records are negated in place on the function's OWN copy: legitimate", expect="survive"),
]

# --- option-interaction mutants (no size window): a defect that needs two optional arguments to be non-default together
MUTANTS += [
    dict(id="c05-opt-sig-dur-vals-end-and-se-square-inplace", prop="C05", file="eqsig/im.py",
         old="    cum_acc2 = np.cumsum(np.asarray(motion, dtype=float) ** 2)\n",
         new="    if se and end != 0.95:\n        motion = np.asarray(motion, dtype=float)\n        np.square(motion, out=motion)\n"
             "        cum_acc2 = np.cumsum(motion)\n    else:\n        cum_acc2 = np.cumsum(np.asarray(motion, dtype=float) ** 2)\n",
         why="se=True together with a non-default end squares the caller's float record in place"),
    dict(id="c05-opt-trim-only-returns-view", prop="C05", file="eqsig/surface.py",
         old="        if trim:\n            sis = np.zeros_like(surf_to_depth_shifts)\n",
         new="        if trim:\n            return values[:, :npts]  # no shifting needed: cut the tail off\n",
         why="trim=True with start=False returns a view of the argument - since the audit NOT a violation by itself (the statement does not forbid a "
             "result that is a view of the input): the check must stay quiet", expect="survive"),
    dict(id="c05-opt-n-cyc-switched-peak-demean-inplace", prop="C05", file="eqsig/fns/peaks_and_crossings.py",
         old="    if opt == 'all':\n        indys = get_peak_array_indices(values)\n",
         new="    if opt == 'switched' and start == 'peak' and isinstance(values, np.ndarray):\n        values -= values[0]\n"
             "    if opt == 'all':\n        indys = get_peak_array_indices(values)\n",
         why="opt='switched' together with start='peak' rebases the caller's array in place"),
]

# --- survivors of the audit (notes/audit/C05.md section 5)
MUTANTS += [
    dict(id="c05-aud-abs-velocity-inplace", prop="C05", file="eqsig/im.py",
         old="    abs_vel = abs(asig.velocity)\n", new="    abs_vel = np.abs(asig.velocity, out=asig.velocity)\n",
         why="audit survivor 1: an analysis function overwrites the signal argument's cached velocity series in place (idempotent)"),
    dict(id="c05-aud-second-call-raises", prop="C05", file="eqsig/fns/frequency.py",
         old="    return np.take(asig.smooth_fa_frequencies, indices)\n",
         new="    out = np.take(asig.smooth_fa_frequencies, indices)\n    asig._smooth_fa_spectrum = None  # free the smoothed spectrum\n    return out\n",
         why="audit survivor 2: works once, raises when called again (state consumed on the signal argument)"),
    dict(id="c05-aud-chfactor-writes-period", prop="C05", file="eqsig/design_spectra.py",
         old="    c_h_values = np.zeros(len(period))\n",
         new="    if isinstance(period, np.ndarray) and period.dtype == float:\n        period[period == 0] = 1e-12\n    c_h_values = np.zeros(len(period))\n",
         why="audit survivor 3: c_h_factor writes into the caller's period array"),
    dict(id="c05-aud-uke-clamps-signal-periods", prop="C05", file="eqsig/sdof.py",
         old="    if periods is None:\n        periods = acc_signal.response_times\n    else:\n        periods = np.array(periods)\n",
         new="    if periods is None:\n        periods = acc_signal.response_times\n        periods[(periods > 0) & (periods < 2 * acc_signal.dt)] = 2 * acc_signal.dt\n    else:\n        periods = np.array(periods)\n",
         why="audit survivor 4: periods=None branch edits the signal's own period array in place"),
    dict(id="c05-aud-ctor-keeps-period-array", prop="C05", file="eqsig/single.py",
         old="            self.response_times = np.array(response_times)", new="            self.response_times = np.asarray(response_times)",
         why="audit survivor 5: AccSignal(..., response_times=T) keeps the caller's period array"),
    dict(id="c05-aud-cluster-row-views-kept", prop="C05", file="eqsig/single.py",
         old="    values = np.array(values)\n    if not np.issubdtype",
         new="    if type(values) is np.ndarray and values.ndim == 1 and values.dtype == float and values.base is not None and values.base.ndim == 2:\n"
             "        return values  # a row of a 2-d float64 array: no copy\n    values = np.array(values)\n    if not np.issubdtype",
         why="audit survivor 6: rows of a caller's 2-d array are kept as views (only a correction after Cluster construction shows it)"),
]
