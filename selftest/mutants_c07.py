_DIRECT_HEAD = '''    if smooth_fa_frequencies is None:
        smooth_fa_frequencies = fa_frequencies

    amp_array = band * np.log10(fa_frequencies[:, np.newaxis] / smooth_fa_frequencies[np.newaxis, :])
    wb_vals = (np.sin(amp_array) / amp_array) ** 4
    wb_vals = np.where(amp_array == 0, 1, wb_vals)
    wb_vals /= np.sum(wb_vals, axis=0)

    return np.sum('''
_MATRIX_TAIL = '''    wb_vals = np.where(amp_array == 0, 1, wb_vals)
    wb_vals /= np.sum(wb_vals, axis=0)
    return wb_vals'''

MUTANTS = [
    # ---- C07: direct form (calc_smooth_fa_spectrum)
    dict(id="c07-direct-exp2", prop="C07", file="eqsig/fns/frequency.py",
         old=_DIRECT_HEAD, new=_DIRECT_HEAD.replace("** 4", "** 2"),
         why="window exponent 4 -> 2 in the direct form (the why_tests_cant example: passes the suite)"),
    dict(id="c07-direct-coincide-zero", prop="C07", file="eqsig/fns/frequency.py",
         old=_DIRECT_HEAD, new=_DIRECT_HEAD.replace("np.where(amp_array == 0, 1, wb_vals)", "np.where(amp_array == 0, 0, wb_vals)"),
         why="0/0 replaced by weight 0 instead of 1 where a target coincides with a Fourier frequency (finite but wrong)"),
    dict(id="c07-direct-nan-kept", prop="C07", file="eqsig/fns/frequency.py",
         old=_DIRECT_HEAD, new=_DIRECT_HEAD.replace("    wb_vals = np.where(amp_array == 0, 1, wb_vals)\n", ""),
         why="0/0 replacement dropped: NaN when a target coincides with a Fourier frequency"),
    dict(id="c07-direct-natural-log", prop="C07", file="eqsig/fns/frequency.py",
         old=_DIRECT_HEAD, new=_DIRECT_HEAD.replace("np.log10(", "np.log("),
         why="natural logarithm instead of log10 in the window argument"),
    dict(id="c07-direct-norm-count", prop="C07", file="eqsig/fns/frequency.py",
         old=_DIRECT_HEAD, new=_DIRECT_HEAD.replace("wb_vals /= np.sum(wb_vals, axis=0)", "wb_vals /= len(fa_frequencies)"),
         why="weights divided by the number of frequencies instead of their sum (weights no longer sum to one)"),
    dict(id="c07-direct-norm-rows", prop="C07", file="eqsig/fns/frequency.py",
         old=_DIRECT_HEAD,
         new=_DIRECT_HEAD.replace("wb_vals /= np.sum(wb_vals, axis=0)", "wb_vals /= np.sum(wb_vals, axis=1)[:, np.newaxis]"),
         why="normalised over targets (rows) instead of over Fourier frequencies (columns)"),
    dict(id="c07-direct-zero-bin-kept", prop="C07", file="eqsig/fns/frequency.py",
         old="    if fa_frequencies[0] == 0:\n        fa_frequencies = fa_frequencies[1:]\n        fa_spectrum = fa_spectrum[1:]\n",
         new="    if fa_frequencies[0] == 0:\n        fa_frequencies = np.array(fa_frequencies, dtype=float)\n"
             "        fa_frequencies[0] = 0.5 * fa_frequencies[1] if len(fa_frequencies) > 1 else 1.0\n",
         why="zero-frequency amplitude takes part in the mean (bin moved to half the first frequency instead of dropped)"),
    dict(id="c07-direct-always-drop-first", prop="C07", file="eqsig/fns/frequency.py",
         old="    if fa_frequencies[0] == 0:\n        fa_frequencies = fa_frequencies[1:]\n        fa_spectrum = fa_spectrum[1:]\n",
         new="    if fa_frequencies[0] == 0 or len(fa_frequencies) > 1:\n        fa_frequencies = fa_frequencies[1:]\n        fa_spectrum = fa_spectrum[1:]\n",
         why="first bin dropped even when it is not the zero frequency"),
    dict(id="c07-direct-real-part", prop="C07", file="eqsig/fns/frequency.py",
         old="    return np.sum(abs(fa_spectrum)[:, np.newaxis] * wb_vals, axis=0)",
         new="    return np.sum(abs(np.real(fa_spectrum))[:, np.newaxis] * wb_vals, axis=0)",
         why="amplitude taken from the real part only (dropped complex abs)"),
    dict(id="c07-direct-band-halfwidth", prop="C07", file="eqsig/fns/frequency.py",
         old=_DIRECT_HEAD, new=_DIRECT_HEAD.replace("amp_array = band * np.log10(", "amp_array = (band + 1e-3) * np.log10("),
         why="bandwidth coefficient off by 1e-3 (2.5e-5 relative at b=40)"),
    # ---- matrix form
    dict(id="c07-matrix-exp2", prop="C07", file="eqsig/fns/frequency.py",
         old="    wb_vals = (np.sin(amp_array) / amp_array) ** 4\n" + _MATRIX_TAIL,
         new="    wb_vals = (np.sin(amp_array) / amp_array) ** 2\n" + _MATRIX_TAIL,
         why="window exponent 4 -> 2 in the matrix form only (matrix form != direct form)"),
    dict(id="c07-matrix-abs-window", prop="C07", file="eqsig/fns/frequency.py",
         old="    wb_vals = (np.sin(amp_array) / amp_array) ** 4\n" + _MATRIX_TAIL,
         new="    wb_vals = (np.sin(amp_array) / amp_array) ** 3\n" + _MATRIX_TAIL,
         why="odd exponent: negative weights"),
    dict(id="c07-custom-matrix-misaligned", prop="C07", file="eqsig/fns/frequency.py",
         old="    return np.dot(abs(asig.fa_spectrum[1:]), smooth_matrix)",
         new="    return np.dot(abs(asig.fa_spectrum[:-1]), smooth_matrix)",
         why="matrix form applied to amplitudes shifted by one bin (includes 0 Hz, drops the last)"),
    dict(id="c07-alias-band-lost", prop="C07", file="eqsig/fns/frequency.py",
         old="    return calc_smooth_fa_spectrum(fa_frequencies, fa_spectrum, smooth_fa_frequencies, band=band)",
         new="    return calc_smooth_fa_spectrum(fa_frequencies, fa_spectrum, smooth_fa_frequencies)",
         why="deprecated alias ignores its band argument"),
    # ---- object level
    dict(id="c07-object-band-lost", prop="C07", file="eqsig/single.py",
         old="self.fa_spectrum, self.smooth_fa_freqs, band=band)",
         new="self.fa_spectrum, self.smooth_fa_freqs)",
         why="Signal.gen_smooth_fa_spectrum ignores its band argument"),
    dict(id="c07-object-setter-stale", prop="C07", file="eqsig/single.py",
         old="    def smooth_fa_freqs(self, freqs):\n        self._smooth_fa_freqs = np.array(freqs, dtype=float)\n        self._cached_smooth_fa = False",
         new="    def smooth_fa_freqs(self, freqs):\n        self._smooth_fa_freqs = np.array(freqs, dtype=float)",
         why="smooth_fa_freqs setter leaves the previously smoothed spectrum cached"),
    # ---- bandwidth limits
    dict(id="c07-bw-fmax-first", prop="C07", file="eqsig/im.py",
         old="    max_freq = asig.smooth_fa_frequencies[ind2[0][-1]]\n    return max_freq",
         new="    max_freq = asig.smooth_fa_frequencies[ind2[0][0]]\n    return max_freq",
         why="calc_bandwidth_f_max returns the first instead of the last frequency above the threshold"),
    dict(id="c07-bw-fmin-off-by-one", prop="C07", file="eqsig/im.py",
         old="    min_freq = asig.smooth_fa_frequencies[ind2[0][0]]\n    max_freq = asig.smooth_fa_frequencies[ind2[0][-1]]\n    return min_freq, max_freq",
         new="    min_freq = asig.smooth_fa_frequencies[max(ind2[0][0] - 1, 0)]\n    max_freq = asig.smooth_fa_frequencies[ind2[0][-1]]\n    return min_freq, max_freq",
         why="calc_bandwidth_freqs lower limit one grid point early"),
    dict(id="c07-bw-fa-grid", prop="C07", file="eqsig/fns/frequency.py",
         old="    return np.take(asig.smooth_fa_frequencies, indices)",
         new="    return np.take(asig.fa_frequencies, indices)",
         why="get_sig_freq_range indexes the Fourier grid instead of the smoothing grid"),
    dict(id="c07-bw-ratio-squared", prop="C07", file="eqsig/im.py",
         old="    lim_fas = max_fas1 * ratio\n    ind2 = np.where(fas1_smooth > lim_fas)\n    min_freq = asig.smooth_fa_frequencies[ind2[0][0]]\n    return min_freq",
         new="    lim_fas = max_fas1 * ratio ** 2\n    ind2 = np.where(fas1_smooth > lim_fas)\n    min_freq = asig.smooth_fa_frequencies[ind2[0][0]]\n    return min_freq",
         why="calc_bandwidth_f_min uses ratio^2 (power instead of amplitude ratio)"),
    dict(id="c07-bw-global-peak-only", prop="C07", file="eqsig/fns/frequency.py",
         old="    indys = np.where(fas1_smooth > lim_fas)[0]\n    return indys[0], indys[-1]",
         new="    indys = np.where(fas1_smooth > lim_fas)[0]\n    i = int(np.argmax(fas1_smooth))\n    lo = hi = i\n"
             "    while lo - 1 in indys:\n        lo -= 1\n    while hi + 1 in indys:\n        hi += 1\n    return lo, hi",
         why="get_sig_array_indexes_range returns only the contiguous band around the peak (misses outlying lobes above the threshold)"),
]
