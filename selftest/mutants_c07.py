_DIRECT_HEAD = '''    if smooth_fa_frequencies is None:
        smooth_fa_frequencies = fa_frequencies

    amp_array = band * np.log10(fa_frequencies[:, np.newaxis] / smooth_fa_frequencies[np.newaxis, :])
    wb_vals = (np.sin(amp_array) / amp_array) ** 4
    wb_vals = np.where(amp_array == 0, 1, wb_vals)
    wb_vals /= np.sum(wb_vals, axis=0)

    return np.sum('''
_MATRIX_TAIL = '''    wb_vals = np.where(amp_array == 0, 1, wb_vals)
    wb_vals /= np.sum(wb_vals, axis=0)
    return wb_vals'''

MUTANTS = [
    # ---- C07: direct form (calc_smooth_fa_spectrum)
    dict(id="c07-direct-exp2", prop="C07", file="eqsig/fns/frequency.py",
         old=_DIRECT_HEAD, new=_DIRECT_HEAD.replace("** 4", "** 2"),
         why="window exponent 4 -> 2 in the direct form (the why_tests_cant example: passes the suite)"),
    dict(id="c07-direct-coincide-zero", prop="C07", file="eqsig/fns/frequency.py",
         old=_DIRECT_HEAD, new=_DIRECT_HEAD.replace("np.where(amp_array == 0, 1, wb_vals)", "np.where(amp_array == 0, 0, wb_vals)"),
         why="0/0 replaced by weight 0 instead of 1 where a target coincides with a Fourier frequency (finite but wrong)"),
    dict(id="c07-direct-nan-kept", prop="C07", file="eqsig/fns/frequency.py",
         old=_DIRECT_HEAD, new=_DIRECT_HEAD.replace("    wb_vals = np.where(amp_array == 0, 1, wb_vals)\n", ""),
         why="0/0 replacement dropped: NaN when a target coincides with a Fourier frequency"),
    dict(id="c07-direct-natural-log", prop="C07", file="eqsig/fns/frequency.py",
         old=_DIRECT_HEAD, new=_DIRECT_HEAD.replace("np.log10(", "np.log("),
         why="natural logarithm instead of log10 in the window argument"),
    dict(id="c07-direct-norm-count", prop="C07", file="eqsig/fns/frequency.py",
         old=_DIRECT_HEAD, new=_DIRECT_HEAD.replace("wb_vals /= np.sum(wb_vals, axis=0)", "wb_vals /= len(fa_frequencies)"),
         why="weights divided by the number of frequencies instead of their sum (weights no longer sum to one)"),
    dict(id="c07-direct-norm-rows", prop="C07", file="eqsig/fns/frequency.py",
         old=_DIRECT_HEAD,
         new=_DIRECT_HEAD.replace("wb_vals /= np.sum(wb_vals, axis=0)", "wb_vals /= np.sum(wb_vals, axis=1)[:, np.newaxis]"),
         why="normalised over targets (rows) instead of over Fourier frequencies (columns)"),
    dict(id="c07-direct-zero-bin-kept", prop="C07", file="eqsig/fns/frequency.py",
         old="    if fa_frequencies[0] == 0:\n        fa_frequencies = fa_frequencies[1:]\n        fa_spectrum = fa_spectrum[1:]\n",
         new="    if fa_frequencies[0] == 0:\n        fa_frequencies = np.array(fa_frequencies, dtype=float)\n"
             "        fa_frequencies[0] = 0.5 * fa_frequencies[1] if len(fa_frequencies) > 1 else 1.0\n",
         why="zero-frequency amplitude takes part in the mean (bin moved to half the first frequency instead of dropped)"),
    dict(id="c07-direct-always-drop-first", prop="C07", file="eqsig/fns/frequency.py",
         old="    if fa_frequencies[0] == 0:\n        fa_frequencies = fa_frequencies[1:]\n        fa_spectrum = fa_spectrum[1:]\n",
         new="    if fa_frequencies[0] == 0 or len(fa_frequencies) > 1:\n        fa_frequencies = fa_frequencies[1:]\n        fa_spectrum = fa_spectrum[1:]\n",
         why="first bin dropped even when it is not the zero frequency"),
    dict(id="c07-direct-real-part", prop="C07", file="eqsig/fns/frequency.py",
         old="    return np.sum(abs(fa_spectrum)[:, np.newaxis] * wb_vals, axis=0)",
         new="    return np.sum(abs(np.real(fa_spectrum))[:, np.newaxis] * wb_vals, axis=0)",
         why="amplitude taken from the real part only (dropped complex abs)"),
    dict(id="c07-direct-band-halfwidth", prop="C07", file="eqsig/fns/frequency.py",
         old=_DIRECT_HEAD, new=_DIRECT_HEAD.replace("amp_array = band * np.log10(", "amp_array = (band + 1e-3) * np.log10("),
         why="bandwidth coefficient off by 1e-3 (2.5e-5 relative at b=40)"),
    # ---- matrix form
    dict(id="c07-matrix-exp2", prop="C07", file="eqsig/fns/frequency.py",
         old="    wb_vals = (np.sin(amp_array) / amp_array) ** 4\n" + _MATRIX_TAIL,
         new="    wb_vals = (np.sin(amp_array) / amp_array) ** 2\n" + _MATRIX_TAIL,
         why="window exponent 4 -> 2 in the matrix form only (matrix form != direct form)"),
    dict(id="c07-matrix-abs-window", prop="C07", file="eqsig/fns/frequency.py",
         old="    wb_vals = (np.sin(amp_array) / amp_array) ** 4\n" + _MATRIX_TAIL,
         new="    wb_vals = (np.sin(amp_array) / amp_array) ** 3\n" + _MATRIX_TAIL,
         why="odd exponent: negative weights"),
    dict(id="c07-custom-matrix-misaligned", prop="C07", file="eqsig/fns/frequency.py",
         old="    return np.dot(abs(asig.fa_spectrum[1:]), smooth_matrix)",
         new="    return np.dot(abs(asig.fa_spectrum[:-1]), smooth_matrix)",
         why="matrix form applied to amplitudes shifted by one bin (includes 0 Hz, drops the last)"),
    dict(id="c07-alias-band-lost", prop="C07", file="eqsig/fns/frequency.py",
         old="    return calc_smooth_fa_spectrum(fa_frequencies, fa_spectrum, smooth_fa_frequencies, band=band)",
         new="    return calc_smooth_fa_spectrum(fa_frequencies, fa_spectrum, smooth_fa_frequencies)",
         why="deprecated alias ignores its band argument"),
    # ---- object level
    dict(id="c07-object-band-lost", prop="C07", file="eqsig/single.py",
         old="self.fa_spectrum, self.smooth_fa_freqs, band=band)",
         new="self.fa_spectrum, self.smooth_fa_freqs)",
         why="Signal.gen_smooth_fa_spectrum ignores its band argument"),
    dict(id="c07-object-setter-stale", prop="C07", file="eqsig/single.py",
         old="    def smooth_fa_freqs(self, freqs):\n        self._smooth_fa_freqs = np.array(freqs, dtype=float)\n        self._cached_smooth_fa = False",
         new="    def smooth_fa_freqs(self, freqs):\n        self._smooth_fa_freqs = np.array(freqs, dtype=float)",
         why="smooth_fa_freqs setter leaves the previously smoothed spectrum cached"),
    # ---- bandwidth limits
    dict(id="c07-bw-fmax-first", prop="C07", file="eqsig/im.py",
         old="    return np.max(freqs_above)\n", new="    return np.min(freqs_above)\n",
         why="calc_bandwidth_f_max returns the smallest instead of the largest frequency above the threshold"),
    dict(id="c07-bw-fmin-off-by-one", prop="C07", file="eqsig/im.py",
         old="    return np.min(freqs_above), np.max(freqs_above)",
         new="    f_all = np.sort(np.asarray(asig.smooth_fa_frequencies))\n"
             "    return f_all[max(np.searchsorted(f_all, np.min(freqs_above)) - 1, 0)], np.max(freqs_above)",
         why="calc_bandwidth_freqs lower limit one grid point early"),
    dict(id="c07-bw-fa-grid", prop="C07", file="eqsig/fns/frequency.py",
         old="    freqs_above = np.asarray(asig.smooth_fa_frequencies)[fas1_smooth > max(fas1_smooth) / ratio]",
         new="    freqs_above = np.asarray(asig.fa_frequencies)[np.where(fas1_smooth > max(fas1_smooth) / ratio)[0]]",
         why="get_sig_freq_range indexes the Fourier grid instead of the smoothing grid"),
    dict(id="c07-bw-ratio-squared", prop="C07", file="eqsig/im.py",
         old="    lim_fas = max_fas1 * ratio\n    freqs_above = np.asarray(asig.smooth_fa_frequencies)[np.where(fas1_smooth > lim_fas)[0]]\n    return np.min(freqs_above)\n",
         new="    lim_fas = max_fas1 * ratio ** 2\n    freqs_above = np.asarray(asig.smooth_fa_frequencies)[np.where(fas1_smooth > lim_fas)[0]]\n    return np.min(freqs_above)\n",
         why="calc_bandwidth_f_min uses ratio^2 (power instead of amplitude ratio)"),
    dict(id="c07-bw-global-peak-only", prop="C07", file="eqsig/fns/frequency.py",
         old="    indys = np.where(fas1_smooth > lim_fas)[0]\n    return indys[0], indys[-1]",
         new="    indys = np.where(fas1_smooth > lim_fas)[0]\n    i = int(np.argmax(fas1_smooth))\n    lo = hi = i\n"
             "    while lo - 1 in indys:\n        lo -= 1\n    while hi + 1 in indys:\n        hi += 1\n    return lo, hi",
         why="get_sig_array_indexes_range returns only the contiguous band around the peak (misses outlying lobes above the threshold)"),
]

# ---------------------------------------------------------------------------
# window mutants (notes/brief_midrange.md): the old code below an arbitrary size threshold, a subtly wrong blocked /
# streamed / cached variant above it; plus behaviour-preserving blocked refactorings (expect="survive")

_MATRIX_BODY = "    wb_vals = (np.sin(amp_array) / amp_array) ** 4\n" + _MATRIX_TAIL
_AMP = "    amp_array = band * np.log10(fa_frequencies[:, np.newaxis] / smooth_fa_frequencies[np.newaxis, :])\n"


def _direct_with(branch):
    """calc_smooth_fa_spectrum with `branch` inserted before the 2-d evaluation."""
    assert _DIRECT_HEAD.count(_AMP) == 1
    return _DIRECT_HEAD.replace(_AMP, branch + _AMP)


def _matrix_with(branch):
    return branch + _MATRIX_BODY


MUTANTS += [
    dict(id="c07-mid-direct-rowblocks-drop-tail", prop="C07", file="eqsig/fns/frequency.py", old=_DIRECT_HEAD,
         new=_direct_with(
             "    if len(fa_frequencies) * len(smooth_fa_frequencies) > 300000:\n"
             "        amps = abs(fa_spectrum)\n"
             "        num = np.zeros(len(smooth_fa_frequencies))\n"
             "        den = np.zeros(len(smooth_fa_frequencies))\n"
             "        blk = 2048\n"
             "        for i0 in range(0, max(len(fa_frequencies) - blk + 1, 1), blk):\n"
             "            x = band * np.log10(fa_frequencies[i0:i0 + blk, np.newaxis] / smooth_fa_frequencies[np.newaxis, :])\n"
             "            w = np.where(x == 0, 1, (np.sin(x) / x) ** 4)\n"
             "            num += np.dot(amps[i0:i0 + blk], w)\n"
             "            den += np.sum(w, axis=0)\n"
             "        return num / den\n"),
         why="window: product n_f x m > 3e5 -> accumulation over blocks of 2048 Fourier frequencies; the last partial block is dropped"),
    dict(id="c07-mid-direct-float32-long", prop="C07", file="eqsig/fns/frequency.py", old=_DIRECT_HEAD,
         new=_DIRECT_HEAD.replace("    wb_vals /= np.sum(wb_vals, axis=0)\n",
                                  "    if len(fa_frequencies) > 35000:\n        wb_vals = wb_vals.astype(np.float32)  # halve the memory of long records\n"
                                  "    wb_vals /= np.sum(wb_vals, axis=0)\n"),
         why="window: more than 35 000 Fourier frequencies (records > 70 000 samples) -> weights kept and accumulated in float32 (1e-7 relative)"),
    dict(id="c07-mid-direct-colblocks-seam", prop="C07", file="eqsig/fns/frequency.py", old=_DIRECT_HEAD,
         new=_direct_with(
             "    if len(smooth_fa_frequencies) > 1200:\n"
             "        out = np.zeros(len(smooth_fa_frequencies))\n"
             "        blk = 500\n"
             "        for j0 in range(0, len(out), blk):\n"
             "            j1 = min(j0 + blk, len(out))\n"
             "            x = band * np.log10(fa_frequencies[:, np.newaxis] / smooth_fa_frequencies[np.newaxis, j0:j1 - 1])\n"
             "            w = np.where(x == 0, 1, (np.sin(x) / x) ** 4)\n"
             "            out[j0:j1 - 1] = np.dot(abs(fa_spectrum), w) / np.sum(w, axis=0)\n"
             "            out[j1 - 1] = out[j1 - 2]\n"
             "        x = band * np.log10(fa_frequencies / smooth_fa_frequencies[-1])\n"
             "        w = np.where(x == 0, 1, (np.sin(x) / x) ** 4)\n"
             "        out[-1] = np.dot(abs(fa_spectrum), w) / np.sum(w)\n"
             "        return out\n"),
         why="window: more than 1 200 targets -> blocks of 500 targets; the last target of every block but the final one repeats its "
             "neighbour (off-by-one at the seam: only columns 499, 999, ... are wrong)"),
    dict(id="c07-mid-matrix-colblocks-third-block", prop="C07", file="eqsig/fns/frequency.py", old=_MATRIX_BODY,
         new=_matrix_with(
             "    if len(smooth_fa_frequencies) > 700:\n"
             "        out = np.empty((len(fa_frequencies), len(smooth_fa_frequencies)))\n"
             "        blk = 256\n"
             "        for k, j0 in enumerate(range(0, out.shape[1], blk)):\n"
             "            x = amp_array[:, j0:j0 + blk]\n"
             "            with np.errstate(all='ignore'):\n"
             "                w = (np.sin(x) / x) ** 4\n"
             "            w = np.where(x == 0, 1, w) if k < 2 else np.nan_to_num(w)\n"
             "            out[:, j0:j0 + blk] = w / np.sum(w, axis=0)\n"
             "        return out\n"),
         why="window: more than 700 targets -> the matrix is filled in blocks of 256 columns; from the third block on the 0/0 at f == fc "
             "becomes weight 0 instead of 1 (finite, columns still sum to one)"),
    dict(id="c07-mid-matrix-rowblocks-seam-product", prop="C07", file="eqsig/fns/frequency.py", old=_MATRIX_BODY,
         new=_matrix_with(
             "    if amp_array.size > 15000000:\n"
             "        out = np.zeros(amp_array.shape)\n"
             "        blk = 4096\n"
             "        n = amp_array.shape[0]\n"
             "        for i0 in range(0, n, blk):\n"
             "            i1 = n if i0 + blk >= n else i0 + blk - 1\n"
             "            x = amp_array[i0:i1]\n"
             "            with np.errstate(all='ignore'):\n"
             "                out[i0:i1] = np.where(x == 0, 1, (np.sin(x) / x) ** 4)\n"
             "        out /= np.sum(out, axis=0)\n"
             "        return out\n"),
         why="window: product n_f x m > 1.5e7 -> rows filled in blocks of 4096; the last row of every block but the final one is left at "
             "zero (off-by-one at the seam; columns still non-negative and normalised)"),
    dict(id="c07-mid-custom-matrix-chunked-dot", prop="C07", file="eqsig/fns/frequency.py",
         old="    return np.dot(abs(asig.fa_spectrum[1:]), smooth_matrix)",
         new="    amps = abs(asig.fa_spectrum[1:])\n"
             "    if len(amps) <= 5000:\n"
             "        return np.dot(amps, smooth_matrix)\n"
             "    out = np.zeros(np.shape(smooth_matrix)[1])\n"
             "    for i0 in range(0, len(amps) - len(amps) % 1000, 1000):\n"
             "        out += np.dot(amps[i0:i0 + 1000], smooth_matrix[i0:i0 + 1000])\n"
             "    return out",
         why="window: more than 5 000 Fourier frequencies (records > 10 000 samples) -> chunked product, the remainder rows are dropped"),
    dict(id="c07-mid-object-size-keyed-cache", prop="C07", file="eqsig/single.py",
         old="        if smooth_fa_freqs is not None:\n            self._smooth_fa_freqs = np.array(smooth_fa_freqs, dtype=float)\n"
             "        self._smooth_fa_spectrum = calc_smooth_fa_spectrum(self.fa_freqs,",
         new="        if smooth_fa_freqs is not None:\n            self._smooth_fa_freqs = np.array(smooth_fa_freqs, dtype=float)\n"
             "        size = len(self.fa_freqs) * len(self.smooth_fa_freqs)\n"
             "        key = (len(self.fa_freqs), len(self.smooth_fa_freqs), band)\n"
             "        if 200000 <= size <= 4000000 and getattr(self, '_smooth_key', None) == key:\n"
             "            self._cached_smooth_fa = True  # expensive mid-size spectrum: keep it\n"
             "            return\n"
             "        self._smooth_key = key\n"
             "        self._smooth_fa_spectrum = calc_smooth_fa_spectrum(self.fa_freqs,",
         why="window: 2e5 <= n_f x m <= 4e6 -> the smoothed spectrum is kept as long as the sizes and the band are unchanged: stale after new "
             "targets of the same length or new values of the same length"),
    dict(id="c07-mid-alias-chunked-band-lost", prop="C07", file="eqsig/fns/frequency.py",
         old="    return calc_smooth_fa_spectrum(fa_frequencies, fa_spectrum, smooth_fa_frequencies, band=band)",
         new="    if smooth_fa_frequencies is None or len(smooth_fa_frequencies) <= 100:\n"
             "        return calc_smooth_fa_spectrum(fa_frequencies, fa_spectrum, smooth_fa_frequencies, band=band)\n"
             "    parts = [calc_smooth_fa_spectrum(fa_frequencies, fa_spectrum, smooth_fa_frequencies[:64], band=band)]\n"
             "    for j0 in range(64, len(smooth_fa_frequencies), 64):\n"
             "        parts.append(calc_smooth_fa_spectrum(fa_frequencies, fa_spectrum, smooth_fa_frequencies[j0:j0 + 64]))\n"
             "    return np.concatenate(parts)",
         why="window: more than 100 targets -> the deprecated alias works in chunks of 64 targets and passes the band to the first chunk only"),
    dict(id="c07-mid-bandwidth-decimated-search", prop="C07", file="eqsig/im.py",
         old="    freqs_above = np.asarray(asig.smooth_fa_frequencies)[np.where(fas1_smooth > lim_fas)[0]]\n    return np.min(freqs_above), np.max(freqs_above)",
         new="    freqs_above = np.asarray(asig.smooth_fa_frequencies)[np.where(fas1_smooth > lim_fas)[0]]\n    if len(fas1_smooth) > 3000:  # coarse search on long spectra\n"
             "        freqs_above = np.asarray(asig.smooth_fa_frequencies)[::2][np.where(fas1_smooth[::2] > lim_fas)[0]]\n"
             "    return np.min(freqs_above), np.max(freqs_above)",
         why="window: more than 3 000 smoothing frequencies -> calc_bandwidth_freqs searches every other point (limits off by one grid point)"),
    dict(id="c07-mid-object-long-record-decimated", prop="C07", file="eqsig/single.py",
         old="        self._smooth_fa_spectrum = calc_smooth_fa_spectrum(self.fa_freqs,\n"
             "                                                               self.fa_spectrum, self.smooth_fa_freqs, band=band)",
         new="        if self.npts > 250000:  # very long record: every second Fourier ordinate is plenty for a smoothed spectrum\n"
             "            self._smooth_fa_spectrum = calc_smooth_fa_spectrum(self.fa_freqs[1::2], self.fa_spectrum[1::2],\n"
             "                                                               self.smooth_fa_freqs, band=band)\n"
             "            self._cached_smooth_fa = True\n"
             "            return\n"
             "        self._smooth_fa_spectrum = calc_smooth_fa_spectrum(self.fa_freqs,\n"
             "                                                               self.fa_spectrum, self.smooth_fa_freqs, band=band)",
         why="window: records longer than 250 000 samples -> the object smooths every second Fourier ordinate only"),
    # ---- behaviour-preserving blocked refactorings: the mid-range clauses must stay quiet
    dict(id="c07-mid-ok-direct-rowblocks", prop="C07", file="eqsig/fns/frequency.py", old=_DIRECT_HEAD, expect="survive",
         new=_direct_with(
             "    if len(fa_frequencies) * len(smooth_fa_frequencies) > 200000:\n"
             "        amps = abs(fa_spectrum)\n"
             "        num = np.zeros(len(smooth_fa_frequencies))\n"
             "        den = np.zeros(len(smooth_fa_frequencies))\n"
             "        blk = 3000\n"
             "        for i0 in range(0, len(fa_frequencies), blk):\n"
             "            x = band * np.log10(fa_frequencies[i0:i0 + blk, np.newaxis] / smooth_fa_frequencies[np.newaxis, :])\n"
             "            with np.errstate(all='ignore'):\n"
             "                w = np.where(x == 0, 1, (np.sin(x) / x) ** 4)\n"
             "            num += np.dot(amps[i0:i0 + blk], w)\n"
             "            den += np.sum(w, axis=0)\n"
             "        return num / den\n"),
         why="correct accumulation over blocks of 3000 Fourier frequencies above 2e5 pairs (other summation order, BLAS dot): no alarm"),
    dict(id="c07-mid-ok-matrix-colblocks", prop="C07", file="eqsig/fns/frequency.py", old=_MATRIX_BODY, expect="survive",
         new=_matrix_with(
             "    if len(smooth_fa_frequencies) > 300:\n"
             "        out = np.empty((len(fa_frequencies), len(smooth_fa_frequencies)))\n"
             "        for j0 in range(0, out.shape[1], 200):\n"
             "            x = band * (np.log10(fa_frequencies)[:, np.newaxis] - np.log10(smooth_fa_frequencies)[np.newaxis, j0:j0 + 200])\n"
             "            with np.errstate(all='ignore'):\n"
             "                w = np.where(x == 0, 1.0, (np.sin(x) / x) ** 4)\n"
             "            out[:, j0:j0 + 200] = w / np.sum(w, axis=0)\n"
             "        return out\n"),
         why="correct column-blocked matrix above 300 targets that evaluates the window argument as b*(log f - log fc) (differs from "
             "b*log(f/fc) by rounding only: inside the conditioning bound): no alarm"),
]

# ---------------------------------------------------------------------------
# survivors of the audit (notes/audit/C07.md, section 5)
MUTANTS += [
    dict(id="c07-audit-A-bandwidth-reads-private-buffer", prop="C07", file="eqsig/im.py", count=3,
         old="    fas1_smooth = asig.smooth_fa_spectrum\n", new="    fas1_smooth = asig._smooth_fa_spectrum\n",
         why="audit A: calc_bandwidth_freqs / f_min / f_max read the private buffer: wrong / IndexError when nothing has read the "
             "smoothed spectrum since the object was built or a setter was used"),
    dict(id="c07-audit-A2-freq-range-reads-private-buffer", prop="C07", file="eqsig/fns/frequency.py",
         old="    fas1_smooth = np.asarray(asig.smooth_fa_spectrum)\n    freqs_above",
         new="    fas1_smooth = np.asarray(asig._smooth_fa_spectrum)\n    freqs_above",
         why="audit A: get_sig_freq_range reads the private buffer (cold cache)"),
    dict(id="c07-audit-B-custom-matrix-reads-private-fas", prop="C07", file="eqsig/fns/frequency.py",
         old="    return np.dot(abs(asig.fa_spectrum[1:]), smooth_matrix)",
         new="    return np.dot(abs(asig._fa_spectrum[1:]), smooth_matrix)",
         why="audit B: custom-matrix form reads the private Fourier buffer: TypeError on an object whose spectrum was never read"),
    dict(id="c07-audit-C-zero-bins-skipped-long", prop="C07", file="eqsig/fns/frequency.py", old=_DIRECT_HEAD,
         new=_direct_with(
             "    if len(fa_frequencies) > 2000:\n"
             "        keep = abs(fa_spectrum) > 0\n"
             "        if np.any(keep):\n"
             "            fa_frequencies, fa_spectrum = fa_frequencies[keep], fa_spectrum[keep]\n"),
         why="audit C: above 2000 bins zero-amplitude bins are dropped before the window is normalised"),
    dict(id="c07-audit-D-tolerant-zero-bin", prop="C07", file="eqsig/fns/frequency.py", count=2,
         old="    if fa_frequencies[0] == 0:\n", new="    if fa_frequencies[0] < 1e-6:\n",
         why="audit D: a first frequency below 1e-6 Hz is treated as the 0 Hz bin"),
    dict(id="c07-audit-E-small-size-length-keyed-cache", prop="C07", file="eqsig/single.py",
         old="        if smooth_fa_freqs is not None:\n            self._smooth_fa_freqs = np.array(smooth_fa_freqs, dtype=float)\n"
             "        self._smooth_fa_spectrum = calc_smooth_fa_spectrum(self.fa_freqs,",
         new="        if smooth_fa_freqs is not None:\n            self._smooth_fa_freqs = np.array(smooth_fa_freqs, dtype=float)\n"
             "        key = (len(self.fa_freqs), len(self.smooth_fa_freqs), band)\n"
             "        if len(self.fa_freqs) * len(self.smooth_fa_freqs) < 100000 and getattr(self, '_smooth_key', None) == key:\n"
             "            self._cached_smooth_fa = True\n"
             "            return\n"
             "        self._smooth_key = key\n"
             "        self._smooth_fa_spectrum = calc_smooth_fa_spectrum(self.fa_freqs,",
         why="audit E: below 1e5 pairs the smoothed spectrum is kept while sizes and band are unchanged: stale after other targets / "
             "values of the same length"),
]

# ---------------------------------------------------------------------------
# reverts of the repairs of C07-KF1 (/repo 512613e) and C07-KF2 (/repo e2823b0)
MUTANTS += [
    dict(id="c07-revert-kf1-bandwidth-freqs", prop="C07", file="eqsig/im.py",
         old="    return np.min(freqs_above), np.max(freqs_above)", new="    return freqs_above[0], freqs_above[-1]",
         why="revert of 512613e in calc_bandwidth_freqs: first / last array entry above the threshold (f_min > f_max on non-ascending smoothing frequencies)"),
    dict(id="c07-revert-kf1-f-min", prop="C07", file="eqsig/im.py",
         old="    return np.min(freqs_above)\n", new="    return freqs_above[0]\n",
         why="revert of 512613e in calc_bandwidth_f_min: first array entry above the threshold"),
    dict(id="c07-revert-kf1-f-max", prop="C07", file="eqsig/im.py",
         old="    return np.max(freqs_above)\n", new="    return freqs_above[-1]\n",
         why="revert of 512613e in calc_bandwidth_f_max: last array entry above the threshold"),
    dict(id="c07-revert-kf1-freq-range", prop="C07", file="eqsig/fns/frequency.py",
         old="    return np.array([np.min(freqs_above), np.max(freqs_above)])", new="    return np.array([freqs_above[0], freqs_above[-1]])",
         why="revert of 512613e in get_sig_freq_range: first / last array entry above the threshold"),
    dict(id="c07-revert-kf2-gen-stores-list", prop="C07", file="eqsig/single.py",
         old="            self._smooth_fa_freqs = np.array(smooth_fa_freqs, dtype=float)\n        self._smooth_fa_spectrum = calc_smooth_fa_spectrum(",
         new="            self._smooth_fa_freqs = smooth_fa_freqs\n        self._smooth_fa_spectrum = calc_smooth_fa_spectrum(",
         why="revert of e2823b0: gen_smooth_fa_spectrum stores a list / tuple as it is (TypeError in the smoothing)"),
]
