F = "eqsig/fns/peaks_and_crossings.py"
MUTANTS = [
    # ---- C12 (none of these touch the `peak_values_set = [0]` line that the proposed repair rewrites)
    dict(id="c12-adj-zero-ge", prop="C12", file=F,
         old="        no_adj_is = np.where(diff_is > 1)[0]", new="        no_adj_is = np.where(diff_is >= 1)[0]",
         why="strict -> non-strict: adjacent zeros always kept"),
    dict(id="c12-two-zeros", prop="C12", file=F,
         old="    if not keep_adj_zeros and len(zero_indices) > 1:", new="    if not keep_adj_zeros and len(zero_indices) > 2:",
         why="off-by-one: a series with exactly two (adjacent) zeros keeps both"),
    dict(id="c12-to-begin", prop="C12", file=F,
         old="        diff_is = np.ediff1d(zero_indices, to_begin=10)", new="        diff_is = np.ediff1d(zero_indices, to_begin=1)",
         why="first zero of the series dropped when there are several"),
    dict(id="c12-sign-nonstrict", prop="C12", file=F,
         old="    through_zero_indices = np.where(sign_switch < 0)[0]", new="    through_zero_indices = np.where(sign_switch <= 0)[0]",
         why="strict -> non-strict sign change: samples next to a zero reported"),
    dict(id="c12-no-zero-insert", prop="C12", file=F,
         old="    if all_zc_indices[0] != 0:\n", new="    if all_zc_indices[0] < 0:\n",
         why="index 0 not inserted for series that start positive"),
    dict(id="c12-first-sample-sign", prop="C12", file=F,
         old="    sign_switch = np.insert(sign_switch, 0, np.sign(values[0]))", new="    sign_switch = np.insert(sign_switch, 1, np.sign(values[0]))",
         why="swapped insert position: the sign products are shifted by one sample"),
    dict(id="c12-neg-tol", prop="C12", file=F,
         old="    if tol < 0:\n        raise NotImplemented('not implemented')", new="    if tol < 0:\n        tol = 0.0",
         expect="survive",
         why="negative tolerance silently accepted - NOT a violation of the statement (quantifier: tol in {0, > 0}; the docstring gives "
             "tol < 0 a meaning): the demand 'tol < 0 must raise' was removed after the audit, the check must stay quiet on this change"),
    dict(id="c12-sw-strict", prop="C12", file=F,
         old="        if np.sign(adj_val) * np.sign(last) <= 0:  # only add index", new="        if np.sign(adj_val) * np.sign(last) < 0:  # only add index",
         why="non-strict -> strict: zero-valued turning points no longer split half cycles"),
    dict(id="c12-sw-noabs", prop="C12", file=F,
         old="            i_max_set = np.argmax(np.abs(peak_values_set))\n", new="            i_max_set = np.argmax(peak_values_set)\n",
         why="dropped abs: negative half cycles report their smallest |value|"),
    dict(id="c12-sw-last-group", prop="C12", file=F,
         old="        i_max_set = np.argmax(np.abs(peak_values_set))\n        new_peak_indices.append(peak_indices_set[i_max_set])\n        peak_values_set.append(peak_values[i])",
         new="        i_max_set = len(peak_values_set) - 1\n        new_peak_indices.append(peak_indices_set[i_max_set])\n        peak_values_set.append(peak_values[i])",
         why="final half cycle reports its last peak instead of its largest"),
    dict(id="c12-sw-last-update", prop="C12", file=F,
         old="            last = peak_values[i]\n            peak_values_set = []  # reset set",
         new="            last = peak_values[i - 1]\n            peak_values_set = []  # reset set",
         why="off-by-one: reference sign of the new half cycle taken from the previous peak"),
    dict(id="c12-tol-sign", prop="C12", file=F,
         old="        adj_val = peak_values[i] + tol * sgn", new="        adj_val = peak_values[i] - tol * sgn",
         why="tolerance applied with the wrong sign (only visible for tol > 0: result no longer a subsequence)"),
    dict(id="c12-sw-first-last", prop="C12", file=F,
         old="    last = peak_values[0]\n    new_peak_indices = []", new="    last = 0\n    new_peak_indices = []",
         why="first-sample handling: index 0 always closes a half cycle of its own (invisible on series that start at 0)"),
    dict(id="c12-empty-result", prop="C12", file=F,
         old="    if len(all_zc_indices) == 0:\n        return np.array([0])", new="    if len(all_zc_indices) == 0:\n        return np.array([], dtype=int)",
         why="one-signed series without zeros: index 0 not reported"),
    dict(id="c12-tol-sgn-const", prop="C12", file=F,
         old="        sgn = np.sign(last)\n", new="        sgn = 1.0\n",
         why="tolerance offset ignores the sign of the current half cycle (negative half cycles split at small negative peaks; tol > 0 only)"),
    dict(id="c12-zero-abs-tol", prop="C12", file=F,
         old="    zero_indices = np.where(values == 0)[0]", new="    zero_indices = np.where(np.abs(values) < 1e-12)[0]",
         why="exact zeros replaced by an absolute tolerance (unit dependent)"),
]

# ---- wave 2: window mutants (a variant that exists only above an arbitrary size), audit survivors M2-M5, the revert of 09dd9e3, and
#      behaviour-preserving refactorings (expect="survive")
MUTANTS += [
    dict(id="c12-w-zc-tail-60000", prop="C12", file=F,
         old="        all_zc_indices = np.delete(all_zc_indices, rem_i)\n",
         new="        all_zc_indices = np.delete(all_zc_indices, rem_i)\n        if len(values) > 60000:\n"
             "            all_zc_indices = np.unique(np.append(all_zc_indices, len(values) - 1))\n",
         why="window > 60000 samples, tol > 0: a closing index is appended (absent from the zero-tolerance result) - audit M4 with another threshold"),
    dict(id="c12-zc-tail-2200", prop="C12", file=F,
         old="        all_zc_indices = np.delete(all_zc_indices, rem_i)\n",
         new="        all_zc_indices = np.delete(all_zc_indices, rem_i)\n        if len(values) > 2200:\n"
             "            all_zc_indices = np.unique(np.append(all_zc_indices, len(values) - 1))\n",
         why="audit M4 as written: records > 2200 samples get a closing index when tol > 0"),
    dict(id="c12-w-zc-seam-16384", prop="C12", file=F,
         old="    sign_switch = np.insert(sign_switch, 0, np.sign(values[0]))",
         new="    if len(values) > 16384:\n        sign_switch[16383::16384] = 1.0  # seam product left to the next block\n"
             "    sign_switch = np.insert(sign_switch, 0, np.sign(values[0]))",
         why="window > 16384 samples: blocked sign test never evaluates the product across a block seam (a crossing there is lost)"),
    dict(id="c12-w-zeros-dedupe-700", prop="C12", file=F,
         old="        no_adj_is = np.where(diff_is > 1)[0]",
         new="        no_adj_is = np.where(diff_is > (1 if len(zero_indices) <= 700 else 2))[0]",
         why="window > 700 exact zeros: a zero two samples after the previous one (0, x, 0) is treated as adjacent and dropped"),
    dict(id="c12-w-sw-lastgroup-5000", prop="C12", file=F,
         old="    if len(peak_values_set):  # add last\n",
         new="    if len(peak_values_set) and len(peak_values) <= 5000:  # add last\n",
         why="window > 5000 local peaks: the final half cycle is never closed (its excursion has no reported index)"),
    dict(id="c12-w-sw-placeholder-50000", prop="C12", file=F,
         old="    peak_values_set = [peak_values[0]]\n",
         new="    peak_values_set = [peak_values[0] if len(peak_values) <= 50000 else 0]\n",
         why="window > 50000 local peaks: the first excursion's own first value is replaced by the placeholder 0 again (the defect C12-F(a) "
             "for long records: visible when the first sample is the largest of its excursion)"),
    dict(id="c12-w-sw-tol-window-20000", prop="C12", file=F,
         old="        adj_val = peak_values[i] + tol * sgn",
         new="        adj_val = peak_values[i] + (tol if len(values) <= 20000 else -tol) * sgn",
         why="window > 20000 samples x option tol > 0: tolerance applied with the wrong sign (result no longer a subsequence)"),
    dict(id="c12-wrapper-abs", prop="C12", file=F,
         old="    if hasattr(asig, \"values\"):\n        values = asig.values\n",
         new="    if hasattr(asig, \"values\"):\n        values = np.abs(asig.values)\n",
         why="audit M2: Signal objects analysed rectified by get_switched_peak_indices"),
    dict(id="c12-wrapper-zc-keep", prop="C12", file=F,
         old="    return get_zero_crossings_array_indices(asig.values)\n",
         new="    return get_zero_crossings_array_indices(asig.values, keep_adj_zeros=True)\n",
         why="audit M3 (= seeded r6-c12-signal-level-zero-crossings-default-keeps-adjacent-zeros): the wrapper keeps adjacent zeros by default"),
    dict(id="c12-w-wrapper-cache-5000-200000", prop="C12", file=F,
         old="    return get_zero_crossings_array_indices(asig.values)\n",
         new="    if 5000 <= asig.npts <= 200000:\n        if getattr(asig, '_zc_cache', None) is None:\n"
             "            asig._zc_cache = get_zero_crossings_array_indices(asig.values)\n        return asig._zc_cache.copy()\n"
             "    return get_zero_crossings_array_indices(asig.values)\n",
         why="cache kept on the Signal object only for mid-size records (5000 .. 200 000 samples): stale after reset_values"),
    dict(id="c12-kf1-opening-group-all", prop="C12", file=F,
         old="            i_max_set = np.argmax(np.abs(peak_values_set))\n            new_peak_indices.append(peak_indices_set[i_max_set])\n\n"
             "            last = peak_values[i]",
         new="            if tol > 0 and not new_peak_indices and np.max(np.abs(peak_values_set)) < tol:\n"
             "                new_peak_indices.extend(peak_indices_set)\n            else:\n"
             "                i_max_set = np.argmax(np.abs(peak_values_set))\n                new_peak_indices.append(peak_indices_set[i_max_set])\n\n"
             "            last = peak_values[i]",
         why="audit M5: a sub-tolerance opening group reports ALL its local peaks (was routed to C12-KF1 by the old, too broad matcher)"),
    # needs narrow-int containers (gen.narrow_int: int8 / int16 / int32 over the full range, most negative sample = the dtype's minimum):
    # int16 / int32 peak values wrap in abs / products.  Must-catch since the containers joined the random / tol / mid-range families.
    dict(id="c12-revert-09dd9e3-float-peaks", prop="C12", file=F,
         old="    peak_values = np.asarray(np.take(values, peak_indices), dtype=float)",
         new="    peak_values = np.take(values, peak_indices)",
         why="reverts fix 09dd9e3 (peak values kept in the caller's integer dtype): abs / products of narrow-integer peaks wrap around"),
    dict(id="c12-w-ok-blocked-sign-8192", prop="C12", file=F, expect="survive",
         old="    sign_switch = np.sign(values[1:]) * np.sign(values[:-1])  # signs: the product of two tiny values underflows to zero\n",
         new="    if len(values) > 8192:\n        sign_switch = np.empty(len(values) - 1)\n        for i0 in range(0, len(values) - 1, 8192):\n"
             "            i1 = min(len(values) - 1, i0 + 8192)\n            sign_switch[i0:i1] = np.sign(values[i0 + 1:i1 + 1]) * np.sign(values[i0:i1])\n"
             "    else:\n        sign_switch = np.sign(values[1:]) * np.sign(values[:-1])\n",
         why="behaviour-preserving: a CORRECT blocked sign test above 8192 samples (must not be flagged)"),
    dict(id="c12-w-ok-sw-vectorised-sets-3000", prop="C12", file=F, expect="survive",
         old="    switched_peak_indices = np.take(peak_indices, new_peak_indices)\n",
         new="    if len(peak_values) > 3000:\n        new_peak_indices = np.unique(np.asarray(new_peak_indices, dtype=np.int64))\n"
             "    switched_peak_indices = np.take(peak_indices, new_peak_indices)\n",
         why="behaviour-preserving: above 3000 local peaks the (already ascending, distinct) group representatives pass through np.unique"),
]
MUTANTS += [
    dict(id="c12-revert-e26d58f-zc-product", prop="C12", file=F,
         old="    sign_switch = np.sign(values[1:]) * np.sign(values[:-1])  # signs",
         new="    sign_switch = values[1:] * values[:-1]  # signs",
         why="reverts fix e26d58f (C12-F3, crossings): the product of two samples below ~1e-154 underflows to zero and the crossing is missed - "
             "get_zero_crossings_array_indices([1e-170, -1e-170, 1e-170]) gives [0]; caught by clause extreme-magnitudes"),
    dict(id="c12-revert-e26d58f-sw-product", prop="C12", file=F,
         old="        if np.sign(adj_val) * np.sign(last) <= 0:  # only add index",
         new="        if adj_val * last <= 0:  # only add index",
         why="reverts fix e26d58f (C12-F3, switched peaks): the product of two tiny same-sign peaks underflows to zero and is read as a sign "
             "change - the excursion is split; caught by clause extreme-magnitudes"),
]
