MUTANTS = [
    # ---- C19: surface energy (eqsig/surface.py).  `count=1` (the harness default) replaces the first occurrence,
    # which is the one in calc_surface_energy; the get_time_shift_motions copies are addressed through unique context.
    dict(id="c19-antinodal-sign", prop="C19", file="eqsig/surface.py",
         old="        acc_series = down_waves + up_wave\n    velocity =",
         new="        acc_series = down_waves - up_wave\n    velocity =",
         why="anti-nodal surface: upward wave subtracted instead of added (the suite only uses nodal=True)"),
    dict(id="c19-frac-delay-floor", prop="C19", file="eqsig/surface.py",
         old="    shifts = 2 * travel_times / asig.dt\n",
         new="    shifts = np.floor(2 * travel_times / asig.dt)\n",
         why="fractional delays truncated to whole samples (the suite only uses whole-sample travel times)"),
    dict(id="c19-interp-edge-hold", prop="C19", file="eqsig/surface.py",
         old="down_waves = np.interp(dshifted, np.arange(asig.npts), asig.values, left=0, right=0)",
         new="down_waves = np.interp(dshifted, np.arange(asig.npts), asig.values, left=0)",
         why="delayed wave holds its last sample instead of returning to zero after the record has passed"),
    dict(id="c19-red-array-swap", prop="C19", file="eqsig/surface.py",
         old="        down_waves *= down_red[:, np.newaxis]\n",
         new="        down_waves *= up_red[:, np.newaxis]\n",
         why="array reduction factors: downward wave scaled by the upward factors (the suite passes equal arrays)"),
    dict(id="c19-red-array-order", prop="C19", file="eqsig/surface.py",
         old="        up_wave = up_wave[np.newaxis, :] * up_red[:, np.newaxis]  # 1d\n",
         new="        up_wave = up_wave[np.newaxis, :] * np.sort(up_red)[::-1][:, np.newaxis]  # 1d\n",
         why="array reduction factors assumed to decrease with depth (rows get another row's factor otherwise)"),
    dict(id="c19-rows-sorted", prop="C19", file="eqsig/surface.py",
         old="[np.newaxis, :] - shifts[:, np.newaxis]  # TODO: not needed if shifts is scalar\n    down_waves = np.interp(dshifted, np.arange(asig.npts), asig.values, left=0, right=0)\n    if hasattr(up_red, '__len__') or hasattr(down_red, '__len__'):  # lists, or one array and one scalar\n        up_red = np.asarray(up_red) * np.ones(len(travel_times))\n        down_red = np.asarray(down_red) * np.ones(len(travel_times))\n    if hasattr(up_red, '__len__'):\n        up_wave = up_wave[np.newaxis, :] * up_red[:, np.newaxis]  # 1d\n        down_waves *= down_red[:, np.newaxis]\n    else:\n        up_wave = up_wave * up_red  # 1d  # TODO: may need to increase dimensions here\n        down_waves *= down_red\n    if nodal:\n        acc_series = - down_waves + up_wave\n    else:\n        acc_series = down_waves + up_wave\n    velocity",
         new="[np.newaxis, :] - np.sort(shifts)[:, np.newaxis]  # TODO: not needed if shifts is scalar\n    down_waves = np.interp(dshifted, np.arange(asig.npts), asig.values, left=0, right=0)\n    if hasattr(up_red, '__len__') or hasattr(down_red, '__len__'):  # lists, or one array and one scalar\n        up_red = np.asarray(up_red) * np.ones(len(travel_times))\n        down_red = np.asarray(down_red) * np.ones(len(travel_times))\n    if hasattr(up_red, '__len__'):\n        up_wave = up_wave[np.newaxis, :] * up_red[:, np.newaxis]  # 1d\n        down_waves *= down_red[:, np.newaxis]\n    else:\n        up_wave = up_wave * up_red  # 1d  # TODO: may need to increase dimensions here\n        down_waves *= down_red\n    if nodal:\n        acc_series = - down_waves + up_wave\n    else:\n        acc_series = down_waves + up_wave\n    velocity",
         why="row-wise consistency: rows computed for the sorted travel times (the suite only passes increasing ones)"),
    dict(id="c19-trapz-to-rect", prop="C19", file="eqsig/surface.py",
         old="    velocity = cumulative_trapezoid(acc_series, dx=asig.dt, initial=0, axis=1)\n",
         new="    velocity = np.cumsum(acc_series, axis=1) * asig.dt\n    velocity = velocity - velocity[:, :1]\n",
         why="velocity by the rectangle rule instead of the trapezoid (same final value when the record ends at zero)"),
    dict(id="c19-start-no-extras", prop="C19", file="eqsig/surface.py",
         old="            extras = np.max([np.max(sis), 0]) - np.min([np.min(2 * surf_to_depth_shifts), 0])",
         new="            extras = 0",
         why="start without trim: series not lengthened by the start shift (the suite only uses stt=0 there)"),
    dict(id="c19-depth-shift-round", prop="C19", file="eqsig/surface.py",
         old="    surf_to_depth_shifts = np.array(surf2depth_travel_times / dt, dtype=int)\n",
         new="    surf_to_depth_shifts = np.array(np.round(surf2depth_travel_times / dt), dtype=int)\n",
         why="floor -> round for the depth shift: differs for odd multiples of dt/2 / fractional travel times"),
    dict(id="c19-start-shift-ceil", prop="C19", file="eqsig/surface.py",
         old="    start_shift = int(s2s_travel_time / dt)\n",
         new="    start_shift = int(np.ceil(s2s_travel_time / dt))\n",
         why="floor -> ceil for the surface travel time: differs for fractional stt/dt only"),
    dict(id="c19-trim-advance-off1", prop="C19", file="eqsig/surface.py",
         old="            outs[i] = values[i, -sis[i]: npts - sis[i]]\n",
         new="            outs[i] = values[i, -sis[i] - 1: npts - sis[i] - 1]\n",
         why="advanced rows (travel time longer than stt) taken one sample early"),
    dict(id="c19-cumabs-first-step", prop="C19", file="eqsig/surface.py",
         old="    diff = np.diff(energy, axis=-1, prepend=0)\n",
         new="    diff = np.diff(energy, axis=-1, prepend=energy[..., :1])\n",
         why="cumulative change measured from the first sample instead of from rest (matters once start advances a row)"),
    dict(id="c19-cumabs-signed-tail", prop="C19", file="eqsig/surface.py",
         old="    return np.cumsum(np.abs(diff), axis=-1)\n",
         new="    return np.cumsum(np.where(np.arange(diff.shape[-1]) < asig.npts, np.abs(diff), diff), axis=-1)\n",
         why="abs dropped on the padded tail of untrimmed series: the cumulative series can decrease after the record ends"),
    dict(id="c19-motions-antinodal", prop="C19", file="eqsig/surface.py",
         old="        acc_series = down_waves + up_wave\n    acc_series = trim_to_length",
         new="        acc_series = down_waves - up_wave\n    acc_series = trim_to_length",
         why="get_time_shift_motions (not covered by the suite at all): anti-nodal sign"),
    dict(id="c19-motions-maxshift", prop="C19", file="eqsig/surface.py",
         old="    max_shift = int(np.max(shifts))\n    up_wave = np.pad(asig.values, (0, max_shift), mode='constant', constant_values=0)\n    dshifted = np.arange(asig.npts + max_shift)[np.newaxis, :] - shifts[:, np.newaxis]  # TODO: not needed if shifts is scalar\n    down_waves = np.interp(dshifted, np.arange(asig.npts), asig.values, left=0, right=0)\n    if hasattr(up_red, '__len__') or hasattr(down_red, '__len__'):  # lists, or one array and one scalar\n        up_red = np.asarray(up_red) * np.ones(len(travel_times))\n        down_red = np.asarray(down_red) * np.ones(len(travel_times))\n    if hasattr(up_red, '__len__'):\n        up_wave = up_wave[np.newaxis, :] * up_red[:, np.newaxis]  # 1d\n        down_waves *= down_red[:, np.newaxis]\n    else:\n        up_wave = up_wave * up_red  # 1d  # TODO: may need to increase dimensions here\n        down_waves *= down_red\n    if nodal:\n        acc_series = - down_waves + up_wave\n    else:\n        acc_series = down_waves + up_wave\n    acc_series = trim",
         new="    max_shift = int(np.ceil(np.max(shifts)))\n    up_wave = np.pad(asig.values, (0, max_shift), mode='constant', constant_values=0)\n    dshifted = np.arange(asig.npts + max_shift)[np.newaxis, :] - shifts[:, np.newaxis]  # TODO: not needed if shifts is scalar\n    down_waves = np.interp(dshifted, np.arange(asig.npts), asig.values, left=0, right=0)\n    if hasattr(up_red, '__len__') or hasattr(down_red, '__len__'):  # lists, or one array and one scalar\n        up_red = np.asarray(up_red) * np.ones(len(travel_times))\n        down_red = np.asarray(down_red) * np.ones(len(travel_times))\n    if hasattr(up_red, '__len__'):\n        up_wave = up_wave[np.newaxis, :] * up_red[:, np.newaxis]  # 1d\n        down_waves *= down_red[:, np.newaxis]\n    else:\n        up_wave = up_wave * up_red  # 1d  # TODO: may need to increase dimensions here\n        down_waves *= down_red\n    if nodal:\n        acc_series = - down_waves + up_wave\n    else:\n        acc_series = down_waves + up_wave\n    acc_series = trim",
         why="get_time_shift_motions: untrimmed length npts+ceil instead of npts+floor of the largest delay"),
    dict(id="c19-energy-1e9", prop="C19", file="eqsig/surface.py",
         old="    e = 0.5 * velocity * np.abs(velocity)\n    e = trim_to_length",
         new="    e = 0.5 * velocity * np.abs(velocity) * (1 + 1e-9)\n    e = trim_to_length",
         why="1e-9 relative error in the energy (three orders above the rounding bound)"),
    dict(id="c19-scalar-upred-dropped", prop="C19", file="eqsig/surface.py",
         old="        up_wave = up_wave * up_red  # 1d  # TODO: may need to increase dimensions here\n",
         new="        up_wave = up_wave * 1.0  # 1d  # TODO: may need to increase dimensions here\n",
         why="scalar upward reduction ignored (the suite always passes up_red=1)"),
    dict(id="c19-half-sample-weight", prop="C19", file="eqsig/surface.py",
         old="[np.newaxis, :] - shifts[:, np.newaxis]  # TODO: not needed if shifts is scalar\n    down_waves = np.interp(dshifted, np.arange(asig.npts), asig.values, left=0, right=0)\n    if hasattr(up_red, '__len__') or hasattr(down_red, '__len__'):  # lists, or one array and one scalar\n        up_red = np.asarray(up_red) * np.ones(len(travel_times))\n        down_red = np.asarray(down_red) * np.ones(len(travel_times))\n    if hasattr(up_red, '__len__'):\n        up_wave = up_wave[np.newaxis, :] * up_red[:, np.newaxis]  # 1d\n        down_waves *= down_red[:, np.newaxis]\n    else:\n        up_wave = up_wave * up_red  # 1d  # TODO: may need to increase dimensions here\n        down_waves *= down_red\n    if nodal:\n        acc_series = - down_waves + up_wave\n    else:\n        acc_series = down_waves + up_wave\n    velocity",
         new="[np.newaxis, :] - np.where(shifts % 1 == 0.5, shifts + 1e-6, shifts)[:, np.newaxis]  # TODO: not needed if shifts is scalar\n    down_waves = np.interp(dshifted, np.arange(asig.npts), asig.values, left=0, right=0)\n    if hasattr(up_red, '__len__') or hasattr(down_red, '__len__'):  # lists, or one array and one scalar\n        up_red = np.asarray(up_red) * np.ones(len(travel_times))\n        down_red = np.asarray(down_red) * np.ones(len(travel_times))\n    if hasattr(up_red, '__len__'):\n        up_wave = up_wave[np.newaxis, :] * up_red[:, np.newaxis]  # 1d\n        down_waves *= down_red[:, np.newaxis]\n    else:\n        up_wave = up_wave * up_red  # 1d  # TODO: may need to increase dimensions here\n        down_waves *= down_red\n    if nodal:\n        acc_series = - down_waves + up_wave\n    else:\n        acc_series = down_waves + up_wave\n    velocity",
         why="half-sample delays (travel time an odd multiple of dt/4) interpolated with a weight off by 1e-6"),
    # ---- C19: array shifting helpers (eqsig/fns/time_shift.py)
    dict(id="c19-put-allneg", prop="C19", file="eqsig/fns/time_shift.py",
         old="    end_extras = np.max([np.max(shifts), 0])\n",
         new="    end_extras = np.max(shifts)\n",
         why="all-negative shift vectors: width shrinks by the smallest |shift| (the suite has no all-negative vector)"),
    dict(id="c19-put-clip-end-neg", prop="C19", file="eqsig/fns/time_shift.py",
         old="    if clip in ['end', 'both'] and end_extras > 0:\n            out = out[:, :-end_extras]\n",
         new="    if clip in ['end', 'both'] and end_extras > 0:\n            out = out[:, :-end_extras]\n    elif clip == 'end':\n            out = out[:, :-1]\n",
         why="clip='end' with no positive shift drops a column"),
    dict(id="c19-join-sub-sign", prop="C19", file="eqsig/fns/time_shift.py",
         old="        return -a1 + a0\n", new="        return a1 - a0\n",
         why="jtype='sub' (never exercised by the suite): shifted minus original instead of original minus shifted"),
    dict(id="c19-join-sig-round", prop="C19", file="eqsig/fns/time_shift.py",
         old="    shifts = np.array(np.asarray(time_shifts) / sig.dt, dtype=int)\n",
         new="    shifts = np.array(np.round(np.asarray(time_shifts) / sig.dt), dtype=int)\n",
         why="join_sig_w_time_shift (not covered by the suite): floor -> round of t/dt"),
    dict(id="c19-join-pad-short", prop="C19", file="eqsig/fns/time_shift.py",
         old="    a1 = put_array_in_2d_array(values, shifts)\n    if jtype == 'add':\n        return a1 + a0\n",
         new="    a1 = put_array_in_2d_array(values, shifts)\n    if jtype == 'add':\n        return a1 + a0 * (np.max(shifts) < len(values) + 3)\n",
         why="boundary: original dropped when the largest shift reaches len(values)+3"),
]

# ---- window mutants (mid-range brief): a code path that only exists above an arbitrary size / product threshold -----------
_VEL = "    velocity = cumulative_trapezoid(acc_series, dx=asig.dt, initial=0, axis=1)\n"
_BLOCKED_VEL = '''    if acc_series.shape[1] > 20000:  # long records: integrate in column blocks to bound the temporaries
        velocity = np.zeros_like(acc_series)
        carry = 0.0
        blk = 7000
        for i0 in range(0, acc_series.shape[1], blk):
            seg = acc_series[:, max(i0 - 1, 0): i0 + blk]
            part = cumulative_trapezoid(seg, dx=asig.dt, initial=0, axis=1)
            if i0 > 0:
                part = part[:, 1:]
            velocity[:, i0:i0 + blk] = part + carry
            carry = %s
    else:
        velocity = cumulative_trapezoid(acc_series, dx=asig.dt, initial=0, axis=1)
'''
MUTANTS += [
    dict(id="c19-win-energy-colblock-carry-20000", prop="C19", file="eqsig/surface.py", old=_VEL,
         new=_BLOCKED_VEL % "part[:, -1:]",
         why="window: records + delay > 20000 samples integrated in blocks of 7000; the carry forgets the earlier blocks (wrong from the third block on)"),
    dict(id="c19-win-energy-colblock-correct", prop="C19", file="eqsig/surface.py", old=_VEL,
         new=_BLOCKED_VEL % "velocity[:, min(i0 + blk, acc_series.shape[1]) - 1][:, np.newaxis]", expect="survive",
         why="behaviour-preserving: the same blocked integration with the right carry (rounding differs within the bound)"),
    dict(id="c19-win-motions-rowblock-tail-700", prop="C19", file="eqsig/surface.py",
         old="    acc_series = trim_to_length(acc_series,",
         new="    if len(travel_times) > 700:  # row blocks of 256; the last partial block is evaluated with whole-sample delays\n"
             "        r0 = 256 * (len(travel_times) // 256)\n"
             "        tail = np.interp(np.floor(dshifted[r0:]), np.arange(asig.npts), asig.values, left=0, right=0)\n"
             "        tail = tail * (down_red[r0:, np.newaxis] if hasattr(down_red, '__len__') else down_red)\n"
             "        upw = up_wave[r0:] if up_wave.ndim == 2 else up_wave\n"
             "        acc_series[r0:] = (-tail if nodal else tail) + upw\n"
             "    acc_series = trim_to_length(acc_series,",
         why="window: more than 700 travel times in get_time_shift_motions - the last partial block of 256 rows gets truncated delays"),
    dict(id="c19-win-energy-float32-product-3e5", prop="C19", file="eqsig/surface.py",
         old="    if hasattr(up_red, '__len__'):\n        up_wave = up_wave[np.newaxis, :] * up_red[:, np.newaxis]  # 1d\n        down_waves *= down_red[:, np.newaxis]\n    else:\n        up_wave = up_wave * up_red  # 1d  # TODO: may need to increase dimensions here\n        down_waves *= down_red\n    if nodal:\n        acc_series = - down_waves + up_wave\n    else:\n        acc_series = down_waves + up_wave\n    velocity",
         new="    if down_waves.size > 300000:  # memory saving for large batches\n        down_waves = down_waves.astype(np.float32)\n    if hasattr(up_red, '__len__'):\n        up_wave = up_wave[np.newaxis, :] * up_red[:, np.newaxis]  # 1d\n        down_waves *= down_red[:, np.newaxis]\n    else:\n        up_wave = up_wave * up_red  # 1d  # TODO: may need to increase dimensions here\n        down_waves *= down_red\n    if nodal:\n        acc_series = - down_waves + up_wave\n    else:\n        acc_series = down_waves + up_wave\n    velocity",
         why="window: rows x samples > 3e5 - the delayed waves are kept in single precision (6e-8 relative)"),
    dict(id="c19-win-trim-seam-5000", prop="C19", file="eqsig/surface.py",
         old="            outs[i, sis[i]:] = values[i, : npts - sis[i]]  # zero padded\n",
         new="            if npts > 5000:  # copy in two halves\n"
             "                h = (npts - sis[i]) // 2\n"
             "                outs[i, sis[i]: sis[i] + h] = values[i, :h]\n"
             "                outs[i, sis[i] + h + 1:] = values[i, h + 1: npts - sis[i]]\n"
             "            else:\n"
             "                outs[i, sis[i]:] = values[i, : npts - sis[i]]  # zero padded\n",
         why="window: trim/start on records > 5000 samples copied in two halves; the sample at the seam is left zero"),
    dict(id="c19-win-cum-block-carry-70000", prop="C19", file="eqsig/surface.py",
         old="    return np.cumsum(np.abs(diff), axis=-1)\n",
         new="    if diff.shape[-1] > 70000:\n"
             "        out = np.empty_like(diff)\n"
             "        blk = 16384\n"
             "        carry = 0.0\n"
             "        for i0 in range(0, diff.shape[-1], blk):\n"
             "            part = np.cumsum(np.abs(diff[..., i0:i0 + blk]), axis=-1)\n"
             "            out[..., i0:i0 + blk] = part + carry\n"
             "            carry = part[..., -1:]\n"
             "        return out\n"
             "    return np.cumsum(np.abs(diff), axis=-1)\n",
         why="window: cumulative series longer than 70000 samples summed in blocks of 16384 with a carry that forgets the earlier blocks"),
    dict(id="c19-win-put-row-skipped-100", prop="C19", file="eqsig/fns/time_shift.py",
         old="    for i, j in enumerate(shifts):\n        out[i, start_extras + j:start_extras + npts + j] = values\n",
         new="    for i, j in enumerate(shifts):\n        if len(shifts) > 100 and i % 128 == 127:\n            continue\n        out[i, start_extras + j:start_extras + npts + j] = values\n",
         why="window: more than 100 shift rows - the last row of every block of 128 is left empty"),
    dict(id="c19-win-join-float32-250000", prop="C19", file="eqsig/fns/time_shift.py",
         old="    a1 = put_array_in_2d_array(values, shifts)\n",
         new="    a1 = put_array_in_2d_array(values, shifts)\n    if a1.size > 250000:\n        a1 = a1.astype(np.float32)\n",
         why="window: joined matrix above 2.5e5 elements built in single precision"),
    dict(id="c19-win-stale-upwave-cache-3000", prop="C19", file="eqsig/surface.py",
         old="    max_shift = int(np.max(shifts))\n    up_wave = np.pad(asig.values, (0, max_shift), mode='constant', constant_values=0)\n    dshifted = np.arange(asig.npts + max_shift)[np.newaxis, :] - shifts[:, np.newaxis]  # TODO: not needed if shifts is scalar\n    down_waves = np.interp(dshifted, np.arange(asig.npts), asig.values, left=0, right=0)\n    if hasattr(up_red, '__len__') or hasattr(down_red, '__len__'):  # lists, or one array and one scalar\n        up_red = np.asarray(up_red) * np.ones(len(travel_times))\n        down_red = np.asarray(down_red) * np.ones(len(travel_times))\n    if hasattr(up_red, '__len__'):\n        up_wave = up_wave[np.newaxis, :] * up_red[:, np.newaxis]  # 1d\n        down_waves *= down_red[:, np.newaxis]\n    else:\n        up_wave = up_wave * up_red  # 1d  # TODO: may need to increase dimensions here\n        down_waves *= down_red\n    if nodal:\n        acc_series = - down_waves + up_wave\n    else:\n        acc_series = down_waves + up_wave\n    velocity",
         new="    max_shift = int(np.max(shifts))\n    vals = asig.values\n    if 3000 <= asig.npts <= 60000:  # mid-size records: keep the float copy on the signal object\n        vals = getattr(asig, '_se_vals', None)\n        if vals is None or len(vals) != asig.npts:\n            vals = np.array(asig.values, dtype=float)\n            asig._se_vals = vals\n    up_wave = np.pad(vals, (0, max_shift), mode='constant', constant_values=0)\n    dshifted = np.arange(asig.npts + max_shift)[np.newaxis, :] - shifts[:, np.newaxis]  # TODO: not needed if shifts is scalar\n    down_waves = np.interp(dshifted, np.arange(asig.npts), asig.values, left=0, right=0)\n    if hasattr(up_red, '__len__') or hasattr(down_red, '__len__'):  # lists, or one array and one scalar\n        up_red = np.asarray(up_red) * np.ones(len(travel_times))\n        down_red = np.asarray(down_red) * np.ones(len(travel_times))\n    if hasattr(up_red, '__len__'):\n        up_wave = up_wave[np.newaxis, :] * up_red[:, np.newaxis]  # 1d\n        down_waves *= down_red[:, np.newaxis]\n    else:\n        up_wave = up_wave * up_red  # 1d  # TODO: may need to increase dimensions here\n        down_waves *= down_red\n    if nodal:\n        acc_series = - down_waves + up_wave\n    else:\n        acc_series = down_waves + up_wave\n    velocity",
         why="window: cache kept only for records of 3000..60000 samples, stale after reset_values with a record of the same length"),
    dict(id="c19-win-rowblock-correct-64", prop="C19", file="eqsig/surface.py", expect="survive",
         old="    e = 0.5 * velocity * np.abs(velocity)\n    e = trim_to_length",
         new="    e = np.empty_like(velocity)\n    for r0 in range(0, velocity.shape[0], 64):\n        e[r0:r0 + 64] = 0.5 * velocity[r0:r0 + 64] * np.abs(velocity[r0:r0 + 64])\n    e = trim_to_length",
         why="behaviour-preserving: energy evaluated in row blocks of 64 (correct seams)"),
    # ---- survivors of the audit (notes/audit/C19.md section 5)
    dict(id="c19-audit-A-delay-capped-2n", prop="C19", file="eqsig/surface.py", count=2,
         old="    max_shift = int(np.max(shifts))\n",
         new="    max_shift = min(int(np.max(shifts)), 2 * asig.npts - 1)\n",
         why="audit A: delay capped at twice the record (travel time >= record duration loses length / reflected wave)"),
    dict(id="c19-audit-B-row-63-mod-64", prop="C19", file="eqsig/surface.py",
         old="    e = 0.5 * velocity * np.abs(velocity)\n    e = trim_to_length",
         new="    e = 0.5 * velocity * np.abs(velocity)\n    if e.shape[0] > 64:\n        e[63::64] = 0.0\n    e = trim_to_length",
         why="audit B: last row of every block of 64 rows left unfilled in batches of more than 64 travel times"),
    dict(id="c19-audit-C1-trim-float32-4096", prop="C19", file="eqsig/surface.py",
         old="    outs = np.zeros((len(surf_to_depth_shifts), npts))\n",
         new="    outs = np.zeros((len(surf_to_depth_shifts), npts), dtype=np.float32 if npts > 4096 else float)\n",
         why="audit C: trimmed output in single precision for records longer than 4096 samples"),
    dict(id="c19-audit-C2-motions-floor-8", prop="C19", file="eqsig/surface.py",
         old="    shifts = 2 * travel_times / asig.dt\n    max_shift = int(np.max(shifts))\n    up_wave = np.pad(asig.values, (0, max_shift), mode='constant', constant_values=0)\n    dshifted = np.arange(asig.npts + max_shift)[np.newaxis, :] - shifts[:, np.newaxis]  # TODO: not needed if shifts is scalar\n    down_waves = np.interp(dshifted, np.arange(asig.npts), asig.values, left=0, right=0)\n    if hasattr(up_red, '__len__') or hasattr(down_red, '__len__'):  # lists, or one array and one scalar\n        up_red = np.asarray(up_red) * np.ones(len(travel_times))\n        down_red = np.asarray(down_red) * np.ones(len(travel_times))\n    if hasattr(up_red, '__len__'):\n        up_wave = up_wave[np.newaxis, :] * up_red[:, np.newaxis]  # 1d\n        down_waves *= down_red[:, np.newaxis]\n    else:\n        up_wave = up_wave * up_red  # 1d  # TODO: may need to increase dimensions here\n        down_waves *= down_red\n    if nodal:\n        acc_series = - down_waves + up_wave\n    else:\n        acc_series = down_waves + up_wave\n    acc_series = trim",
         new="    shifts = 2 * travel_times / asig.dt\n    if len(shifts) > 8:\n        shifts = np.floor(shifts)\n    max_shift = int(np.max(shifts))\n    up_wave = np.pad(asig.values, (0, max_shift), mode='constant', constant_values=0)\n    dshifted = np.arange(asig.npts + max_shift)[np.newaxis, :] - shifts[:, np.newaxis]  # TODO: not needed if shifts is scalar\n    down_waves = np.interp(dshifted, np.arange(asig.npts), asig.values, left=0, right=0)\n    if hasattr(up_red, '__len__') or hasattr(down_red, '__len__'):  # lists, or one array and one scalar\n        up_red = np.asarray(up_red) * np.ones(len(travel_times))\n        down_red = np.asarray(down_red) * np.ones(len(travel_times))\n    if hasattr(up_red, '__len__'):\n        up_wave = up_wave[np.newaxis, :] * up_red[:, np.newaxis]  # 1d\n        down_waves *= down_red[:, np.newaxis]\n    else:\n        up_wave = up_wave * up_red  # 1d  # TODO: may need to increase dimensions here\n        down_waves *= down_red\n    if nodal:\n        acc_series = - down_waves + up_wave\n    else:\n        acc_series = down_waves + up_wave\n    acc_series = trim",
         why="audit C: get_time_shift_motions truncates fractional delays for batches of more than 8 travel times"),
    dict(id="c19-audit-D-reductions-clipped", prop="C19", file="eqsig/surface.py", count=2,
         old="    shifts = 2 * travel_times / asig.dt\n",
         new="    shifts = 2 * travel_times / asig.dt\n    up_red = np.clip(up_red, 0.0, 1.0)\n    down_red = np.clip(down_red, 0.0, 1.0)\n",
         why="audit D: reduction factors clipped to [0, 1] ('a reduction cannot amplify')"),
    dict(id="c19-cum-not-scaled", prop="C19", file="eqsig/surface.py",
         old="    return np.cumsum(np.abs(diff), axis=-1)\n",
         new="    return np.cumsum(np.abs(diff), axis=-1) / max(1.0, float(np.max(np.abs(energy))) ** 0.01)\n",
         why="audit row 8: the cumulative series does not scale with alpha^2 (and is not the running sum)"),
    dict(id="c19-put-clip-None-as-both", prop="C19", file="eqsig/fns/time_shift.py",
         old="    if clip in ['end', 'both'] and end_extras > 0:\n",
         new="    if clip is None:\n        clip = 'both'\n    if clip in ['end', 'both'] and end_extras > 0:\n",
         why="audit section 2: clip=None (documented 'str or none') never passed"),
]
# the statement says "integrating" (no quadrature named), leaves the rounding convention of the start shift and of the time
# shifts open, and fixes no length for start-without-trim (brief_wave2_addendum item 2b): the mutants named below no longer break
# anything the statement says and must now SURVIVE (false-alarm probes).  c19-depth-shift-round and c19-start-shift-ceil stay
# defects: mixing floor with round / ceil moves a row by more than one sample away from (stt - tt_i)/dt.
for _m in MUTANTS:
    if _m["id"] in ("c19-trapz-to-rect", "c19-join-sig-round", "c19-start-no-extras", "c19-motions-maxshift"):
        _m["expect"] = "survive"

# ---- reverts of the repairs of the argument-form findings C19-F1 (2169320) and C19-F2 (c655c72)
MUTANTS += [
    dict(id="c19-revert-F1-join-sig-list-times", prop="C19", file="eqsig/fns/time_shift.py",
         old="    shifts = np.array(np.asarray(time_shifts) / sig.dt, dtype=int)\n",
         new="    shifts = np.array(time_shifts / sig.dt, dtype=int)\n",
         why="reverts fix C19-F1: list / tuple time shifts raise TypeError"),
    dict(id="c19-revert-F2-reduction-forms", prop="C19", file="eqsig/surface.py", count=2,
         old="    if hasattr(up_red, '__len__') or hasattr(down_red, '__len__'):  # lists, or one array and one scalar\n        up_red = np.asarray(up_red) * np.ones(len(travel_times))\n        down_red = np.asarray(down_red) * np.ones(len(travel_times))\n",
         new="",
         why="reverts fix C19-F2: list reductions and array + scalar mixtures raise TypeError"),
    dict(id="c19-revert-F2-motions-only", prop="C19", file="eqsig/surface.py",
         old="    if hasattr(up_red, '__len__') or hasattr(down_red, '__len__'):  # lists, or one array and one scalar\n        up_red = np.asarray(up_red) * np.ones(len(travel_times))\n        down_red = np.asarray(down_red) * np.ones(len(travel_times))\n    if hasattr(up_red, '__len__'):\n        up_wave = up_wave[np.newaxis, :] * up_red[:, np.newaxis]  # 1d\n        down_waves *= down_red[:, np.newaxis]\n    else:\n        up_wave = up_wave * up_red  # 1d  # TODO: may need to increase dimensions here\n        down_waves *= down_red\n    if nodal:\n        acc_series = - down_waves + up_wave\n    else:\n        acc_series = down_waves + up_wave\n    acc_series = trim",
         new="    if hasattr(up_red, '__len__'):\n        up_wave = up_wave[np.newaxis, :] * up_red[:, np.newaxis]  # 1d\n        down_waves *= down_red[:, np.newaxis]\n    else:\n        up_wave = up_wave * up_red  # 1d  # TODO: may need to increase dimensions here\n        down_waves *= down_red\n    if nodal:\n        acc_series = - down_waves + up_wave\n    else:\n        acc_series = down_waves + up_wave\n    acc_series = trim",
         why="reverts fix C19-F2 in get_time_shift_motions only"),
]
