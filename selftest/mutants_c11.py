F = "eqsig/fns/peaks_and_crossings.py"
MUTANTS = [
    # ---- C11 (none of these touch the two `values[1] - values[0]` lines that the proposed repair rewrites;
    #      reverting the repair is the pinned tree itself, which the check reports)
    dict(id="c11-peak-nonstrict", prop="C11", file=F,
         old="peak_indices = np.where(np.sign(diff[1:]) * np.sign(diff[:-1]) < 0)[0]",
         new="peak_indices = np.where(np.sign(diff[1:]) * np.sign(diff[:-1]) <= 0)[0]",
         why="strict -> non-strict sign test of successive differences (index 0 reported twice)"),
    dict(id="c11-last-index", prop="C11", file=F,
         old="peak_indices = np.insert(peak_indices, len(peak_indices), len(values) - 1)",
         new="peak_indices = np.insert(peak_indices, len(peak_indices), max(len(values) - 2, 1))",
         why="wrong end point: last reported index one plateau early"),
    dict(id="c11-min-swap", prop="C11", file=F,
         old="            return peak_full_indices[1::2]\n        else:\n            return peak_full_indices[::2]\n    elif ptype == 'max':",
         new="            return peak_full_indices[::2]\n        else:\n            return peak_full_indices[1::2]\n    elif ptype == 'max':",
         why="ptype='min' returns the maxima (parity swapped)"),
    dict(id="c11-max-falling-start", prop="C11", file=F,
         old="            return peak_full_indices[1::2]\n        else:\n            return peak_full_indices[::2]\n    return peak_full_indices",
         new="            return peak_full_indices[1::2]\n        else:\n            return peak_full_indices[2::2]\n    return peak_full_indices",
         why="ptype='max' drops index 0 when the series starts by falling"),
    dict(id="c11-plateau-abs-tol", prop="C11", file=F,
         old="    non_zero_indices = np.where(diff_values != 0)[0]",
         new="    non_zero_indices = np.where(np.abs(diff_values) > 1e-9)[0]",
         why="plateau detection with an absolute tolerance (merges small real movements; unit dependent)"),
    dict(id="c11-no-first-insert", prop="C11", file=F,
         old="    non_zero_indices = np.insert(non_zero_indices, 0, 0)\n",
         new="    non_zero_indices = non_zero_indices if values[0] != 0 else non_zero_indices\n",
         why="index 0 no longer forced into the cleaned series (lost when the series starts at exactly 0)"),
    dict(id="c11-float32", prop="C11", file=F,
         old="    values = np.array(values, dtype=float)\n    # remove all non-changing values",
         new="    values = np.array(values, dtype=np.float32)\n    # remove all non-changing values",
         why="single precision merges samples of a series riding on a large offset"),
    dict(id="c11-ediff-begin", prop="C11", file=F,
         old="    diff = np.ediff1d(values, to_begin=0)\n",
         new="    diff = np.ediff1d(values, to_begin=1)\n",
         why="boundary case: series that start by falling report index 0 twice"),
    dict(id="c11-ncyc-quarter", prop="C11", file=F,
         old="        svalue = -0.25\n", new="        svalue = -0.5\n",
         why="cycle counter from the origin: first peak at 0 instead of 0.25"),
    dict(id="c11-ncyc-first", prop="C11", file=F,
         old="    n_cycs[1:] += svalue\n", new="    n_cycs[2:] += svalue\n",
         why="off-by-one: quarter-cycle correction skips the first peak"),
    dict(id="c11-ncyc-length", prop="C11", file=F,
         old="    return np.interp(np.arange(len(values)), indys, n_cycs)",
         new="    return np.interp(np.arange(len(values) - 1), indys, n_cycs)",
         why="cycle counter one sample short"),
]
MUTANTS += [
    dict(id="c11-revert-fix-min", prop="C11", file="eqsig/fns/peaks_and_crossings.py",
         old="        if values[peak_full_indices[1]] - values[0] <= 0:", new="        if values[1] - values[0] <= 0:", why="reverts fix C11-F1 (min)"),
    dict(id="c11-revert-fix-max", prop="C11", file="eqsig/fns/peaks_and_crossings.py",
         old="        if values[peak_full_indices[1]] - values[0] > 0:", new="        if values[1] - values[0] > 0:", why="reverts fix C11-F1 (max)"),
]

# ---- wave 2: window mutants (a variant that exists only above an arbitrary size), audit survivors S1-S5, and two
#      behaviour-preserving refactorings (expect="survive") that the mid-range clause must not flag
MUTANTS += [
    dict(id="c11-w-clean-seam-5000", prop="C11", file=F,
         old="    non_zero_indices = np.where(diff_values != 0)[0]\n",
         new="    if len(values) > 5000:\n        diff_values[5000::5000] = 1.0  # blocked variant: every block keeps its first sample\n"
             "    non_zero_indices = np.where(diff_values != 0)[0]\n",
         why="window > 5000 samples: plateau compression in blocks of 5000 keeps every block's first sample (a plateau across a seam is split) - audit S3"),
    dict(id="c11-w-peaks-seam-20000", prop="C11", file=F,
         old="    peak_indices = np.where(np.sign(diff[1:]) * np.sign(diff[:-1]) < 0)[0]",
         new="    prod = np.sign(diff[1:]) * np.sign(diff[:-1])\n    if len(values) > 20000:\n        prod[20000::20000] = 1.0  # seam element left to the next block\n"
             "    peak_indices = np.where(prod < 0)[0]",
         why="window > 20000 cleaned samples: blocked sign test never evaluates the element at a block seam (turning point lost there)"),
    dict(id="c11-w-ncyc-start-70000", prop="C11", file=F,
         old="    n_cycs[1:] += svalue\n", new="    n_cycs[1:] += svalue if len(values) <= 70000 else -0.25\n",
         why="window > 70000 samples: start='peak' ignored (first increment 0.25) - audit S1 with another threshold"),
    dict(id="c11-ncyc-start-3200", prop="C11", file=F,
         old="    n_cycs[1:] += svalue\n", new="    n_cycs[1:] += svalue if len(values) <= 3200 else -0.25\n",
         why="audit S1 as written: records > 3200 samples ignore start='peak'"),
    dict(id="c11-ncyc-switched-short", prop="C11", file=F,
         old="    return np.interp(np.arange(len(values)), indys, n_cycs)",
         new="    npts = len(values) if opt == 'all' else indys[-1] + 1\n    return np.interp(np.arange(npts), indys, n_cycs)",
         why="audit S2: opt='switched' counter ends at the last switched peak (shorter than the series)"),
    dict(id="c11-w-ncyc-float32-250000", prop="C11", file=F,
         old="    return np.interp(np.arange(len(values)), indys, n_cycs)",
         new="    if len(values) > 250000:\n        ramp = np.interp(np.arange(len(values)), indys, n_cycs)\n"
             "        return np.cumsum(np.diff(ramp, prepend=0.0).astype(np.float32), dtype=np.float32).astype(float)\n"
             "    return np.interp(np.arange(len(values)), indys, n_cycs)",
         why="window > 250000 samples: memory-saving single-precision accumulation of the ramp"),
    dict(id="c11-w-ncyc-switched-origin-9000", prop="C11", file=F,
         old="    if indys[0] != 0:\n        indys = np.insert(indys, 0, 0)\n",
         new="    if indys[0] != 0 and (len(values) <= 9000 or start == 'peak'):\n        indys = np.insert(indys, 0, 0)\n",
         why="window > 9000 samples x option pair (opt='switched', start='origin'): the origin is not inserted, the counter reaches 0.25 "
             "only at the second switched peak"),
    dict(id="c11-w-min-droplast-3000", prop="C11", file=F,
         old="            return peak_full_indices[1::2]\n        else:\n            return peak_full_indices[::2]\n    elif ptype == 'max':",
         new="            return peak_full_indices[1::2] if len(peak_full_indices) <= 3000 else peak_full_indices[1:-1:2]\n        else:\n"
             "            return peak_full_indices[::2] if len(peak_full_indices) <= 3000 else peak_full_indices[:-1:2]\n    elif ptype == 'max':",
         why="window > 3000 reported peaks: ptype='min' never returns the last reported index"),
    dict(id="c11-w-wrapper-40000", prop="C11", file=F,
         old="    return get_peak_array_indices(asig.values)\n",
         new="    return get_peak_array_indices(asig.values if asig.npts <= 40000 else asig.values[:-1])\n",
         why="window > 40000 samples: the Signal-level wrapper analyses the record without its last sample"),
    dict(id="c11-wrapper-max-only", prop="C11", file=F,
         old="    return get_peak_array_indices(asig.values)\n",
         new="    return get_peak_array_indices(asig.values, ptype='max')\n",
         why="audit S5: the Signal-level wrapper returns the maxima only"),
    dict(id="c11-w-cache-30000-150000", prop="C11", file=F,
         old="    # enforce array type\n    values = np.array(values, dtype=float)\n    # remove all non-changing values\n"
             "    cleaned_values, non_zero_indices = clean_out_non_changing(values)\n    # cleaned_values *= np.sign(cleaned_values[1])",
         new="    # enforce array type\n    values = np.array(values, dtype=float)\n    # remove all non-changing values\n"
             "    global _CLEAN_CACHE\n    try:\n        _CLEAN_CACHE\n    except NameError:\n        _CLEAN_CACHE = {}\n"
             "    key = (len(values), float(values[0]), float(values[-1]))\n"
             "    if 30000 <= len(values) <= 150000 and key in _CLEAN_CACHE:\n        cleaned_values, non_zero_indices = _CLEAN_CACHE[key]\n"
             "    else:\n        cleaned_values, non_zero_indices = clean_out_non_changing(values)\n        _CLEAN_CACHE.clear()\n"
             "        _CLEAN_CACHE[key] = (cleaned_values, non_zero_indices)\n    # cleaned_values *= np.sign(cleaned_values[1])",
         why="cache kept only for mid-size records (30 000 .. 150 000 samples), keyed on (length, first, last): stale when the record changes inside"),
    dict(id="c11-int-float32", prop="C11", file=F,
         old="    values = np.array(values, dtype=float)\n    # remove all non-changing values",
         new="    values = np.array(values, dtype=np.float32 if np.asarray(values).dtype.kind in 'iu' else float)\n    # remove all non-changing values",
         why="audit S4: integer records analysed in single precision (counts above 2^24 merge)"),
    dict(id="c11-w-ok-blocked-clean-4096", prop="C11", file=F, expect="survive",
         old="    diff_values = np.ediff1d(values, to_begin=values[0])\n",
         new="    if len(values) > 4096:\n        diff_values = np.empty(len(values), dtype=np.asarray(values).dtype)\n        diff_values[0] = values[0]\n"
             "        for i0 in range(1, len(values), 4096):\n            i1 = min(len(values), i0 + 4096)\n"
             "            diff_values[i0:i1] = np.asarray(values[i0:i1]) - np.asarray(values[i0 - 1:i1 - 1])\n"
             "    else:\n        diff_values = np.ediff1d(values, to_begin=values[0])\n",
         why="behaviour-preserving: a CORRECT blocked plateau compression above 4096 samples (must not be flagged)"),
    dict(id="c11-w-ok-ncyc-staircase-10000", prop="C11", file=F, expect="survive",
         old="    return np.interp(np.arange(len(values)), indys, n_cycs)",
         new="    if len(values) > 10000:\n        steps = np.zeros(len(values))\n        steps[indys] = np.diff(n_cycs, prepend=0.0)\n"
             "        return np.cumsum(steps)\n    return np.interp(np.arange(len(values)), indys, n_cycs)",
         why="behaviour-preserving w.r.t. the statement: above 10000 samples the counter is a staircase (right values at the reported peaks, "
             "non-decreasing) instead of a ramp (must not be flagged)"),
]
MUTANTS += [
    dict(id="c11-revert-85207ee-sign-product", prop="C11", file=F,
         old="    peak_indices = np.where(np.sign(diff[1:]) * np.sign(diff[:-1]) < 0)[0]",
         new="    peak_indices = np.where(diff[1:] * diff[:-1] < 0)[0]",
         why="reverts fix 85207ee (C11-F2): the product of two successive differences below ~1e-154 underflows to zero and the turning point "
             "is missed - get_peak_array_indices([0, 1e-170, 0, 1e-170]) gives [0, 3]; caught by clause extreme-magnitudes"),
]
