MUTANTS = [
    dict(id="c03-cut-5dt", prop="C03", file="eqsig/sdof.py",
         old="    sas = np.where(periods < dt * 6, absmax(motion), sas)\n    return sds, svs, sas\n\n\ndef response_series",
         new="    sas = np.where(periods < dt * 5, absmax(motion), sas)\n    return sds, svs, sas\n\n\ndef response_series",
         why="6*dt cut moved to 5*dt in the pseudo spectra"),
    dict(id="c03-cut-nonstrict", prop="C03", file="eqsig/sdof.py",
         old="    sas = np.where(periods < dt * 6, absmax(motion), sas)\n    return sds, svs, sas\n\n\n# def plot",
         new="    sas = np.where(periods < dt * 6.05, absmax(motion), sas)\n    return sds, svs, sas\n\n\n# def plot",
         why="true spectra: cut slightly above 6 steps"),
    dict(id="c03-true-sv-source", prop="C03", file="eqsig/sdof.py",
         old="    svs = absmax(resp_v, axis=1)", new="    svs = absmax(resp_u, axis=1) * 6.2831853 / periods",
         why="true S_v taken from the pseudo relation"),
    dict(id="c03-target-dt", prop="C03", file="eqsig/single.py",
         old="target_dt = max(min_non_zero_period / 20, self.dt / min_dt_ratio)", new="target_dt = max(min_non_zero_period / 10, self.dt / min_dt_ratio)",
         why="object integrates at a coarser step than promised"),
    dict(id="c03-ratio-ignored", prop="C03", file="eqsig/single.py",
         old="target_dt = max(min_non_zero_period / 20, self.dt / min_dt_ratio)", new="target_dt = max(min_non_zero_period / 20, self.dt / min(min_dt_ratio, 4))",
         why="min_dt_ratio=8 silently capped at 4"),
    dict(id="c03-sv-relation", prop="C03", file="eqsig/sdof.py",
         old="    svs = w * sds\n", new="    svs = w * sds * np.where(periods > 50 * dt, 1 + 1e-6, 1)\n",
         why="pseudo S_v off by 1e-6 for long periods"),
    dict(id="c03-energy-dt", prop="C03", file="eqsig/sdof.py",
         old="        return np.sum(acc_signal.values * resp_v * acc_signal.dt, axis=1)", new="        return np.sum(acc_signal.values[:-1] * resp_v[:, :-1] * acc_signal.dt, axis=1)",
         why="input energy drops the last sample"),
    dict(id="c03-uke-strain", prop="C03", file="eqsig/sdof.py",
         old="    cum_delta_energy = np.sum(abs(delta_energy), axis=1)\n\n    return cum_delta_energy", new="    cum_delta_energy = abs(np.sum(delta_energy, axis=1))\n\n    return cum_delta_energy",
         why="kinetic energy spectrum sums signed changes"),
    dict(id="c03-t0-sd", prop="C03", file="eqsig/sdof.py",
         old="        w = np.ones_like(periods)\n", new="        w = np.ones_like(periods)\n        motion = np.asarray(motion)[1:]\n",
         why="with a leading T=0 the PGA ignores the first sample"),
    dict(id="c03-asi-units", prop="C03", file="eqsig/im.py",
         old="    return max(0.01*cumulative_trapezoid(abs(psa)))/9.81  # in g*sec", new="    return max(0.01*cumulative_trapezoid(abs(psa[:-1])))/9.81  # in g*sec",
         why="ASI drops the last period"),
    dict(id="c03-revert-fix-list", prop="C03", file="eqsig/sdof.py",
         old="    periods = np.array(periods, dtype=float)\n    resp_u, resp_v, resp_a = nigam_and_jennings_response(motion, dt, periods, xi)\n    sas = absmax(resp_a, axis=1)",
         new="    resp_u, resp_v, resp_a = nigam_and_jennings_response(motion, dt, periods, xi)\n    sas = absmax(resp_a, axis=1)",
         why="reverts fix 0fb940d"),
]

# ---------------------------------------------------------------------------
# window mutants (mid-range clauses): below the threshold the old code runs, above it a subtly wrong variant
MUTANTS += [
    dict(id="c03-win-absmax-drops-tail-5000", prop="C03", file="eqsig/sdof.py",
         old="def absmax(a, axis=None):\n    a = np.asarray(a, dtype=float)\n    amax = a.max(axis)\n    amin = a.min(axis)\n",
         new="def absmax(a, axis=None):\n    a = np.asarray(a, dtype=float)\n"
             "    if axis == 1 and a.shape[1] > 5000:  # blocked reduction for long series\n"
             "        nb = a.shape[1] // 4096\n"
             "        blocks = a[:, :nb * 4096].reshape(a.shape[0], nb, 4096)\n"
             "        amax = blocks.max(axis=2).max(axis=1)\n"
             "        amin = blocks.min(axis=2).min(axis=1)\n"
             "        return abs(np.where(-amin > amax, amin, amax))\n"
             "    amax = a.max(axis)\n    amin = a.min(axis)\n",
         why="window > 5000 samples: blocked max over time (4096) drops the last partial block"),
    dict(id="c03-win-pseudo-period-blocks-700", prop="C03", file="eqsig/sdof.py",
         old="    resp_u, resp_v, resp_a = nigam_and_jennings_response(motion, dt, periods, xi)\n\n    sds = absmax(resp_u, axis=1)\n    svs = w * sds\n",
         new="    if len(periods) > 700:  # blocks of 256 oscillators keep the response arrays small\n"
             "        sds = np.zeros(len(periods))\n"
             "        for i0 in range(0, len(periods) - 255, 256):\n"
             "            sds[i0:i0 + 256] = absmax(nigam_and_jennings_response(motion, dt, periods[i0:i0 + 256], xi)[0], axis=1)\n"
             "    else:\n"
             "        resp_u, resp_v, resp_a = nigam_and_jennings_response(motion, dt, periods, xi)\n"
             "        sds = absmax(resp_u, axis=1)\n"
             "    svs = w * sds\n",
         why="window > 700 periods: period-blocked pseudo spectra drop the last partial block of 256"),
    dict(id="c03-win-true-float32-3e5", prop="C03", file="eqsig/sdof.py",
         old="    svs = absmax(resp_v, axis=1)\n    sds = absmax(resp_u, axis=1)\n    sas = np.where(periods < dt * 6, absmax(motion), sas)",
         new="    if resp_v.size > 300000:  # large response arrays: reduce in single precision\n"
             "        svs = absmax(resp_v.astype(np.float32), axis=1).astype(float)\n"
             "    else:\n"
             "        svs = absmax(resp_v, axis=1)\n"
             "    sds = absmax(resp_u, axis=1)\n    sas = np.where(periods < dt * 6, absmax(motion), sas)",
         why="window periods x samples > 3e5: true S_v reduced in float32"),
    dict(id="c03-win-true-long-record-70000", prop="C03", file="eqsig/sdof.py",
         old="    sas = absmax(resp_a, axis=1)\n    svs = absmax(resp_v, axis=1)\n    sds = absmax(resp_u, axis=1)\n",
         new="    if len(motion) > 70000:  # long records: running maxima restarted per window, only the last one kept\n"
             "        resp_a, resp_v, resp_u = resp_a[:, -65536:], resp_v[:, -65536:], resp_u[:, -65536:]\n"
             "    sas = absmax(resp_a, axis=1)\n    svs = absmax(resp_v, axis=1)\n    sds = absmax(resp_u, axis=1)\n",
         why="window > 70000 samples: true spectra lose the head of the record (carry of the running maximum dropped)"),
    dict(id="c03-win-object-stale-interp-cache", prop="C03", file="eqsig/single.py",
         old="        if target_dt < self.dt:\n            values_interp, dt_interp = interp_array_to_approx_dt(self.values, self.dt, target_dt, even=False)\n        else:",
         new="        if target_dt < self.dt:\n"
             "            cached = getattr(self, '_interp_cache', None)\n"
             "            if 20000 <= self.npts * len(periods) <= 2000000 and cached is not None and cached[0] == target_dt:\n"
             "                values_interp, dt_interp = cached[1], cached[2]\n"
             "            else:\n"
             "                values_interp, dt_interp = interp_array_to_approx_dt(self.values, self.dt, target_dt, even=False)\n"
             "                self._interp_cache = (target_dt, values_interp, dt_interp)\n"
             "        else:",
         why="window 2e4 <= samples x periods <= 2e6: refined record cached per target step, stale after reset_values"),
    dict(id="c03-win-object-cap-substeps-1p5e6", prop="C03", file="eqsig/single.py",
         old="        if target_dt < self.dt:\n            values_interp, dt_interp = interp_array_to_approx_dt(self.values, self.dt, target_dt, even=False)\n        else:",
         new="        if self.npts * len(periods) * (self.dt / target_dt) > 1.5e6:\n"
             "            target_dt = max(target_dt, self.dt / 2)\n"
             "        if target_dt < self.dt:\n            values_interp, dt_interp = interp_array_to_approx_dt(self.values, self.dt, target_dt, even=False)\n        else:",
         why="window samples x periods x sub-steps > 1.5e6: sub-stepping silently capped at 2"),
    dict(id="c03-win-energy-series-carry-20000", prop="C03", file="eqsig/sdof.py",
         old="    if series:\n        return np.cumsum(acc_signal.values * resp_v * acc_signal.dt, axis=1)\n",
         new="    if series:\n"
             "        terms = acc_signal.values * resp_v * acc_signal.dt\n"
             "        if terms.shape[1] > 20000:  # blocked running sum\n"
             "            out = np.empty_like(terms)\n"
             "            carry = 0.0\n"
             "            for b, i0 in enumerate(range(0, terms.shape[1], 8192)):\n"
             "                blk = np.cumsum(terms[:, i0:i0 + 8192], axis=1)\n"
             "                out[:, i0:i0 + 8192] = blk + carry\n"
             "                carry = blk[:, -1:] + (carry if b < 2 else 0.0)\n"
             "            return out\n"
             "        return np.cumsum(terms, axis=1)\n",
         why="window > 20000 samples: blocked cumulative input energy, carry wrong from the third block on"),
    dict(id="c03-win-uke-float32-100", prop="C03", file="eqsig/sdof.py",
         old="    kin_energy = 0.5 * resp_v ** 2 * mass\n",
         new="    kin_energy = 0.5 * (resp_v.astype(np.float32) if len(resp_v) > 100 else resp_v) ** 2 * mass\n",
         why="window > 100 periods: kinetic energy accumulated in float32"),
    dict(id="c03-win-asi-block-seams-250", prop="C03", file="eqsig/im.py",
         old="    return max(0.01*cumulative_trapezoid(abs(psa)))/9.81  # in g*sec",
         new="    if len(psa) > 250:  # blocked integration\n"
             "        tot, best = 0.0, 0.0\n"
             "        for i0 in range(0, len(psa), 128):\n"
             "            seg = cumulative_trapezoid(abs(psa[i0:i0 + 128]))\n"
             "            if len(seg):\n"
             "                best = max(best, tot + max(seg))\n"
             "                tot += seg[-1]\n"
             "        return 0.01 * best / 9.81\n"
             "    return max(0.01*cumulative_trapezoid(abs(psa)))/9.81  # in g*sec",
         why="window > 250 periods: blocked trapezoid drops the interval at every block seam"),
    # behaviour-preserving window refactorings: the mid-range clauses must stay quiet
    dict(id="c03-win-ok-pseudo-period-blocks", prop="C03", file="eqsig/sdof.py", expect="survive",
         old="    resp_u, resp_v, resp_a = nigam_and_jennings_response(motion, dt, periods, xi)\n\n    sds = absmax(resp_u, axis=1)\n    svs = w * sds\n",
         new="    if len(periods) > 300:  # blocks of 128 oscillators keep the response arrays small\n"
             "        sds = np.zeros(len(periods))\n"
             "        for i0 in range(0, len(periods), 128):\n"
             "            sds[i0:i0 + 128] = absmax(nigam_and_jennings_response(motion, dt, periods[i0:i0 + 128], xi)[0], axis=1)\n"
             "    else:\n"
             "        resp_u, resp_v, resp_a = nigam_and_jennings_response(motion, dt, periods, xi)\n"
             "        sds = absmax(resp_u, axis=1)\n"
             "    svs = w * sds\n",
         why="correct period-blocked pseudo spectra (window > 300 periods)"),
    dict(id="c03-win-ok-energy-series-blocks", prop="C03", file="eqsig/sdof.py", expect="survive",
         old="    if series:\n        return np.cumsum(acc_signal.values * resp_v * acc_signal.dt, axis=1)\n",
         new="    if series:\n"
             "        terms = acc_signal.values * resp_v * acc_signal.dt\n"
             "        if terms.shape[1] > 6000:  # blocked running sum\n"
             "            out = np.empty_like(terms)\n"
             "            carry = 0.0\n"
             "            for i0 in range(0, terms.shape[1], 4096):\n"
             "                out[:, i0:i0 + 4096] = np.cumsum(terms[:, i0:i0 + 4096], axis=1) + carry\n"
             "                carry = out[:, min(i0 + 4096, terms.shape[1]) - 1][:, None]\n"
             "            return out\n"
             "        return np.cumsum(terms, axis=1)\n",
         why="correct blocked cumulative input energy (window > 6000 samples; rounding differs within the summation bound)"),
    dict(id="c03-win-ok-absmax-blocked", prop="C03", file="eqsig/sdof.py", expect="survive",
         old="def absmax(a, axis=None):\n    a = np.asarray(a, dtype=float)\n    amax = a.max(axis)\n    amin = a.min(axis)\n",
         new="def absmax(a, axis=None):\n    a = np.asarray(a, dtype=float)\n"
             "    if axis == 1 and a.shape[1] > 9000:  # blocked reduction for long series\n"
             "        edges = list(range(0, a.shape[1], 4096))\n"
             "        amax = np.max([a[:, e:e + 4096].max(axis=1) for e in edges], axis=0)\n"
             "        amin = np.min([a[:, e:e + 4096].min(axis=1) for e in edges], axis=0)\n"
             "        return abs(np.where(-amin > amax, amin, amax))\n"
             "    amax = a.max(axis)\n    amin = a.min(axis)\n",
         why="correct blocked max over time (window > 9000 samples)"),
]

# ---------------------------------------------------------------------------
# audit of 2026-09-28 (notes/audit/C03.md): confirmed survivors and reverts of repository fixes; must be caught without the corpus
MUTANTS += [
    dict(id="c03-revert-07e02b9-tmin-first-entry", prop="C03", file="eqsig/single.py",
         old="        periods = np.asarray(self.response_times, dtype=float)\n        min_non_zero_period = np.min(periods[periods > 0])  # the list need not be in ascending order\n",
         new="        periods = self.response_times\n        if self.response_times[0] != 0:\n            min_non_zero_period = self.response_times[0]\n"
             "        else:\n            min_non_zero_period = self.response_times[1]\n",
         why="reverts fix 07e02b9: integration step chosen from the first (non-zero) entry of the period list"),
    dict(id="c03-audit-tmin-first-nonzero", prop="C03", file="eqsig/single.py",
         old="        periods = np.asarray(self.response_times, dtype=float)\n        min_non_zero_period = np.min(periods[periods > 0])  # the list need not be in ascending order\n",
         new="        periods = np.asarray(self.response_times, dtype=float)\n        min_non_zero_period = periods[periods > 0][0]\n",
         why="audit survivor 1: T_min = first non-zero entry (wrong for non-ascending lists only)"),
    dict(id="c03-audit-period-list-typeerror", prop="C03", file="eqsig/single.py",
         old="        periods = np.asarray(self.response_times, dtype=float)\n        min_non_zero_period = np.min(periods[periods > 0])  # the list need not be in ascending order\n",
         new="        periods = self.response_times\n        min_non_zero_period = np.min(periods[periods > 0])\n",
         why="audit survivor 4: list / tuple response_times raise TypeError in the object API"),
    dict(id="c03-audit-sv-lazy-missing", prop="C03", file="eqsig/single.py",
         old='        """Pseudo maximum response velocities of linear SDOFs"""\n        if not self._cached_response_spectra:\n            self.generate_response_spectrum()\n        return self._s_v',
         new='        """Pseudo maximum response velocities of linear SDOFs"""\n        return self._s_v',
         why="audit survivor 2: s_v read first on a fresh object returns None / stale values"),
    dict(id="c03-audit-sa-lazy-ratio1", prop="C03", file="eqsig/single.py",
         old='        """Pseudo maximum response accelerations of linear SDOFs"""\n        if not self._cached_response_spectra:\n            self.generate_response_spectrum()\n',
         new='        """Pseudo maximum response accelerations of linear SDOFs"""\n        if not self._cached_response_spectra:\n            self.generate_response_spectrum(min_dt_ratio=1)\n',
         why="audit survivor 2: s_a read first integrates the raw record (min_dt_ratio=1) instead of the default ratio 4"),
    dict(id="c03-revert-39469fd-absmax-int", prop="C03", file="eqsig/sdof.py",
         old="def absmax(a, axis=None):\n    a = np.asarray(a, dtype=float)\n    amax = a.max(axis)\n",
         new="def absmax(a, axis=None):\n    amax = a.max(axis)\n",
         why="reverts fix 39469fd: PGA of an int16 / int32 record whose peak is the dtype's minimum wraps; list records raise"),
    dict(id="c03-audit-energy-sorts-periods", prop="C03", file="eqsig/sdof.py",
         old="    if periods is None:\n        periods = acc_signal.response_times\n    if xi is None:\n        xi = 0.05\n    resp_u, resp_v, resp_a = response_series(acc_signal.values, acc_signal.dt, periods, xi)\n    if series:",
         new="    if periods is None:\n        periods = acc_signal.response_times\n    else:\n        periods = np.sort(periods)\n    if xi is None:\n        xi = 0.05\n    resp_u, resp_v, resp_a = response_series(acc_signal.values, acc_signal.dt, periods, xi)\n    if series:",
         why="audit item 5: input energy returned in sorted-period order for explicitly given periods"),
]
