#!/venv/bin/python
"""Sensitivity (anti-decoration) harness.

For each mutant in selftest/mutants.py: copy /repo's working tree (eqsig + tests)
to a scratch directory under /tmp, apply the textual mutation, optionally confirm
the pinned pytest suite still passes on the copy, run the property's quick check
with VERIF_EQSIG_PATH pointing at the copy, expect exit 1, delete the copy.

usage: selftest/run_mutants.py [--only C08[,C09]] [--ids a,b] [--pytest] [--jobs N] [--tier quick]
Writes selftest/results.json (development record; not evidence).
"""
import argparse
import json
import os
import shutil
import subprocess
import sys
import tempfile
import time
from concurrent.futures import ThreadPoolExecutor

HERE = os.path.dirname(os.path.abspath(__file__))
VERIF = os.path.dirname(HERE)
sys.path.insert(0, HERE)
REPO = "/repo"


def run_one(m, args):
    t0 = time.time()
    scratch = tempfile.mkdtemp(prefix="eqsig_mut_%s_" % m["id"], dir="/tmp")
    try:
        shutil.copytree(os.path.join(REPO, "eqsig"), os.path.join(scratch, "eqsig"),
                        ignore=shutil.ignore_patterns("__pycache__"))
        path = os.path.join(scratch, m["file"])
        src = open(path).read()
        if src.count(m["old"]) < 1:
            return dict(m, result="STALE", detail="pattern not found", wall=0)
        cnt = m.get("count", 1)
        src2 = src.replace(m["old"], m["new"], cnt)
        open(path, "w").write(src2)
        suite = None
        if args.pytest:
            shutil.copytree(os.path.join(REPO, "tests"), os.path.join(scratch, "tests"),
                            ignore=shutil.ignore_patterns("__pycache__"))
            for f in ("setup.cfg",):
                if os.path.exists(os.path.join(REPO, f)):
                    shutil.copy(os.path.join(REPO, f), scratch)
            env = dict(os.environ, PYTHONPATH=scratch, PYTHONDONTWRITEBYTECODE="1")
            p = subprocess.run(["/venv/bin/python", "-m", "pytest", "-q", "-x", "-p", "no:cacheprovider", "tests"],
                               cwd=scratch, env=env, capture_output=True, text=True, timeout=900)
            suite = "pass" if p.returncode == 0 else "FAIL"
        env = dict(os.environ, VERIF_EQSIG_PATH=scratch, VERIF_SEED=str(args.seed), VERIF_PROCS=str(args.procs))
        if args.no_corpus:
            env["VERIF_NO_CORPUS"] = "1"
        env["VERIF_EVIDENCE_DIR"] = os.path.join(scratch, "evidence")
        env["VERIF_REPLAY_DIR"] = os.path.join(scratch, "replays")
        props = m["prop"] if isinstance(m["prop"], list) else [m["prop"]]
        outcomes = {}
        for prop in props:
            p = subprocess.run([os.path.join(VERIF, "vcheck"), prop, "--tier", args.tier], cwd=VERIF, env=env,
                               capture_output=True, text=True, timeout=3600)
            lines = [l for l in p.stdout.splitlines() if l.startswith(("VIOLATION", "clause ", "corpus", "HARNESS"))]
            outcomes[prop] = {"rc": p.returncode, "lines": lines[:6]}
        if m.get("expect") == "survive":  # behaviour-preserving change: the check must stay quiet (false-alarm probe)
            ok = all(o["rc"] == 0 for o in outcomes.values())
            return dict(m, result="caught" if ok else "FALSE-ALARM", suite=suite, outcomes=outcomes,
                        wall=round(time.time() - t0, 1))
        caught = all(o["rc"] == 1 for o in outcomes.values())
        return dict(m, result="caught" if caught else "MISSED", suite=suite, outcomes=outcomes,
                    wall=round(time.time() - t0, 1))
    finally:
        shutil.rmtree(scratch, ignore_errors=True)


def main():
    ap = argparse.ArgumentParser()
    ap.add_argument("--only", default=None)
    ap.add_argument("--ids", default=None)
    ap.add_argument("--pytest", action="store_true")
    ap.add_argument("--jobs", type=int, default=4)
    ap.add_argument("--procs", type=int, default=4)
    ap.add_argument("--seed", type=int, default=1)
    ap.add_argument("--tier", default="quick")
    ap.add_argument("--no-corpus", action="store_true", help="skip the regression corpus: the generated search alone must catch the mutant")
    args = ap.parse_args()
    import mutants
    ms = mutants.MUTANTS
    if args.only:
        want = set(args.only.upper().split(","))
        ms = [m for m in ms if (set(m["prop"]) if isinstance(m["prop"], list) else {m["prop"]}) & want]
    if args.ids:
        want = set(args.ids.split(","))
        ms = [m for m in ms if m["id"] in want]
    with ThreadPoolExecutor(args.jobs) as ex:
        results = list(ex.map(lambda m: run_one(m, args), ms))
    for r in results:
        first = ""
        for o in (r.get("outcomes") or {}).values():
            if o["lines"]:
                first = o["lines"][0][:150]
                break
        print("%-8s %-28s %-7s suite=%s %5.1fs  %s" % (
            r["prop"] if isinstance(r["prop"], str) else ",".join(r["prop"]), r["id"], r["result"], r.get("suite"),
            r.get("wall", 0), first))
    out = os.path.join(HERE, "results.json")
    prev = {}
    if os.path.exists(out):
        try:
            prev = {r["id"]: r for r in json.load(open(out))}
        except Exception:  # noqa
            prev = {}
    for r in results:
        prev[r["id"]] = {k: r.get(k) for k in ("id", "prop", "file", "result", "suite", "wall", "why", "outcomes")}
    json.dump(sorted(prev.values(), key=lambda r: r["id"]), open(out, "w"), indent=1)
    missed = [r["id"] for r in results if r["result"] != "caught"]
    print("%d mutants, %d caught, missed/stale: %s" % (len(results), len(results) - len(missed), missed))
    return 1 if missed else 0


if __name__ == "__main__":
    sys.exit(main())
